// Self-test of oracle/exact_lp.hh against an independent algorithm (PPL's
// generator-based Polyhedron::maximize).  Not a property check: it validates
// the oracle before the oracle is trusted.
#include "kit/ppl_all.hh"
#include "kit/rng.hh"
#include "oracle/exact_lp.hh"
#include <iostream>
using namespace Parma_Polyhedra_Library;
int main(int argc, char** argv) {
  long N = argc > 1 ? atol(argv[1]) : 20000;
  Rng r(12345);
  long bad = 0, st[3] = {0,0,0};
  for (long t = 0; t < N; ++t) {
    size_t n = 1 + r.below(4), m = r.below(7);
    std::vector<oracle::LPRow> rows; Constraint_System cs;
    for (size_t i = 0; i < m; ++i) {
      oracle::LPRow row; row.a.resize(n); Linear_Expression e;
      for (size_t j = 0; j < n; ++j) { long a = r.chance(30) ? 0 : r.range(-4, 4); row.a[j] = a; e += a * Variable(j); }
      long b = r.range(-6, 6); row.b = b; row.rel = (int) r.range(-1, 1);
      rows.push_back(row);
      cs.insert(row.rel < 0 ? (e <= b) : row.rel > 0 ? (e >= b) : (e == b));
    }
    std::vector<mpq_class> c(n); Linear_Expression obj;
    for (size_t j = 0; j < n; ++j) { long a = r.range(-3, 3); c[j] = a; obj += a * Variable(j); }
    bool maxim = r.chance(50);
    oracle::LPResult lr = oracle::lp_solve(n, rows, c, maxim);
    C_Polyhedron ph(n, UNIVERSE); ph.add_constraints(cs);
    int est; mpq_class ev;
    if (ph.is_empty()) est = 0;
    else { Coefficient num, den; bool mx; bool b = maxim ? ph.maximize(obj, num, den, mx) : ph.minimize(obj, num, den, mx); if (!b) est = 1; else { est = 2; ev = mpq_class(num, den); ev.canonicalize(); } }
    ++st[lr.status];
    if ((int) lr.status != est || (est == 2 && lr.value != ev)) { ++bad; if (bad < 5) std::cerr << "MISMATCH case " << t << " lp=" << lr.status << " " << lr.value << " ph=" << est << " " << ev << "\n"; }
  }
  std::cout << "exact_lp self-test: " << N << " cases, infeasible " << st[0] << " unbounded " << st[1] << " optimal " << st[2] << ", mismatches " << bad << "\n";
  return bad ? 1 : 0;
}
