#!/usr/bin/env python3
"""Collects, for every open known finding, one replay plan that reproduces it (from out/replays, produced by earlier
check runs) into findings/witness/<id>.plan, after confirming by a fresh replay with the current build that the plan
still produces a violation class matching the finding's signature.  Run by hand; the check only reads the result."""
import json, os, re, subprocess, sys, glob
ROOT = os.path.dirname(os.path.dirname(os.path.abspath(__file__)))
os.chdir(ROOT)
BINS = {"pset": "obj_pset", "prod": "obj_prod"}
known = [f for f in json.load(open("known_findings.json"))["findings"] if f["status"] == "open"]
os.makedirs("findings/witness", exist_ok=True)
def replay(plan):
    head = open(plan).read().split("\n")[1].split()
    h = head[1]; fl = "plain"
    binp = "_build/%s/bin/%s" % (fl, BINS.get(h, h))
    env = dict(os.environ); env["ASAN_OPTIONS"] = "exitcode=77:detect_leaks=0"
    r = subprocess.run([binp, "replay", plan], stdout=subprocess.PIPE, stderr=subprocess.DEVNULL, text=True, env=env, timeout=900)
    return [l.split("\t")[1] for l in r.stdout.split("\n") if l.startswith("violation\t")]
missing = []
for f in known:
    dst = "findings/witness/%s.plan" % f["id"]
    sig = re.compile(f["signature"])
    if os.path.exists(dst) and "--refresh" not in sys.argv:
        if any(sig.search(c) for c in replay(dst)):
            print("kept", f["id"]); continue
    found = False
    cands = sorted(glob.glob("out/replays/%s/*.plan" % f["property"]), key=lambda p: os.path.getsize(p))
    for p in cands:
        txt = open(p).read()
        m = re.search(r"^# expected: (.*)$", txt, re.M)
        if not m or not sig.search(m.group(1)): continue
        try:
            if any(sig.search(c) for c in replay(p)):
                open(dst, "w").write(txt); print("witness", f["id"], p); found = True; break
        except subprocess.TimeoutExpired:
            pass
    if not found: missing.append(f["id"])
print("missing:", missing)
