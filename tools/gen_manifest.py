#!/usr/bin/env python3
"""Writes /verif/MANIFEST.json from the table below (kept next to the driver's CONFIG)."""
import json, os, subprocess
ROOT = os.path.dirname(os.path.dirname(os.path.abspath(__file__)))

def repo_commits():
    out = subprocess.run("git -C /repo log --format=%H%x09%s", shell=True, stdout=subprocess.PIPE, text=True).stdout
    return [l.split("\t")[0] for l in out.splitlines() if l.split("\t")[1].startswith("verif hooks")]

CLAIMED = {
 "C19": dict(
   category="exploration", design_ref="DESIGN.md §4 C19, §3.4",
   technique="deterministic simulation: simulated ITIMER_PROF/SIGPROF with seeded delivery of expiries at every statement boundary of the watchdog bookkeeping; reference list of (creation, delay, alive) as oracle",
   text="Seeded search over client schedules (create/destroy/idle) and expiry placements: the real Watchdog/Pending_List/Threshold_Watcher code runs against a simulated one-shot timer; every action invocation is compared with a reference list (never early: exact; at most once; never after destruction; deadline order; bounded lateness; every live watchdog fires once the client is idle). Weight watchers are checked against the modular threshold model at every check. A clean batch is evidence, not proof.",
   note="Trusted: the yield sites enumerate the preemption points that matter (statement boundaries; a torn read of a Time is not modelled); the lateness bound grants 1 cs per expiry deferred by a critical section plus the measured getitimer/setitimer gap; foreign signals and failing timer system calls are out of scope."),
 "C01": dict(
   category="exploration", design_ref="DESIGN.md §4 C01, §3.5 (M-twin, M-const, M-ok)",
   technique="deterministic simulation of operation histories over a pool of polyhedra; refinement against an eager re-execution (canonical twin) plus exact point evaluation",
   text="Seeded search over histories (mutators, observers, copies, aliasing, dump/load) that drive the lazy representation through its status flags; after every operation the receiver must pass OK(), const operands must denote the same set, and the same operation on a twin re-built from the object's own minimized description must give the same value and the same answers. Decides the history-dependent part of the statement; a clean batch is evidence, not proof.",
   note="Trusted: exact point evaluation of constraints (150 lines); the twin shares conversion/minimisation code with the implementation, so a wrong conversion that is wrong in the same way from both states is not seen. Absolute LP oracle not built yet."),
 "C13": dict(
   category="exploration", design_ref="DESIGN.md §4 C13",
   technique="deterministic simulation of copy/assign/swap/alias interleavings over an object pool with bystander monitoring",
   text="Seeded histories with copies, assignments, swaps, self-assignment, self-swap and aliased operands; objects not involved in an operation must keep their exact dump text, const operands their value, and x.op(x) must equal copy.op(copy); Linear_Expression arithmetic with aliased operands (e -= e) is covered by the rows harness of C16.",
   note="Instantiated for C/NNC polyhedra, rational BD shapes, octagons, boxes, grids, powersets and products; the syntactic classes (Linear_Expression, systems) are covered only through rows (C16)."),
 "C14": dict(
   category="fault_enumeration", design_ref="DESIGN.md §4 C14, §3.3-3.5 (M-fault), §5.1",
   technique="fault injection in forked branches of a deterministic simulation: k-th allocation (operator new and GMP) fails, abandonment at the k-th maybe_abandon() checkpoint, abandon flag at an allocation instant, weight threshold; LeakSanitizer reachability as leak oracle",
   text="For operation instances reached by seeded histories, the operation is re-executed from its exact pre-state with one injected fault per branch; judged: exception type, global state (rounding mode, watcher hook), bystanders unchanged, every object that was hit satisfies OK() as it stands and can be copied and queried (its value is unspecified), can be destroyed / assigned / swapped and then behaves like a pristine object with that value, a logically const solver call leaves the problem's answers unchanged, and no block allocated during the call is unreachable after everything is destroyed. Rejected (ill-formed) calls (dimension mismatch, space-dimension overflow, strict inequalities for MIP, out-of-range variables) must throw std::invalid_argument / std::length_error and leave values unchanged. Thorough tier enumerates fault positions over the whole range of the operation instance.",
   note="Interpretation of 'can still be used': DESIGN.md §5.1 (reading as built). Instantiated for C/NNC polyhedra, rational BD shapes, octagons, boxes, grids, powersets, products, MIP_Problem and PIP_Problem. Coefficient overflow is not injected (mpz build). Open findings: gmpxx leaks (F7a-c), invalid objects after memory exhaustion (F35, systemic), containers and PIP after abandonment (F36, F37), see known_findings.json."),
 "C15": dict(
   category="exploration", design_ref="DESIGN.md §4 C15",
   technique="deterministic simulation with crash/restart semantics: dump at arbitrary history points, load into arbitrary receivers, lock-step continuation of original and reloaded replica",
   text="At random points of seeded histories an object is dumped and the text loaded into a fresh object or into a copy of any live object (any lazy state); load must succeed, give OK(), an identical re-dump and an equal value, and the replica must answer all later operations like the original.",
   note="Instantiated for C/NNC polyhedra, rational BD shapes, octagons, boxes, grids and MIP_Problem; streams are std::stringstream (chunked streambuf not built yet)."),
 "C16": dict(
   category="exploration", design_ref="DESIGN.md §4 C16",
   technique="deterministic simulation of operation histories against a reference model (plain vector) with lock-step sparse/dense replicas",
   text="Seeded histories over Sparse_Row / Dense_Row / vector triples and DENSE / SPARSE Linear_Expression pairs: after every step all replicas agree index by index, iteration is strictly increasing and skips no non-zero entry, returned iterators point at the requested index, OK() holds, and queries agree across representations. No clock, schedule or fault is involved; the simulator chooses histories and sizes across the tree's rebalancing thresholds.",
   note="Constraint/Generator/Congruence systems built in both representations are not covered yet; the ASan batch makes out-of-bounds accesses inside the tree visible."),
 "C20": dict(
   category="exploration", design_ref="DESIGN.md §4 C20, §9.6",
   technique="deterministic simulation of call sequences over the C interface regenerated from the current tree (one generated thunk per entry point), with fault injection in forked branches: k-th allocation fails inside the entry point, simulated ppl_set_timeout expiry, deterministic (weight) timeout, failing and short in-memory streams; LeakSanitizer reachability as leak oracle",
   text="Seeded search over call sequences and argument values (valid, wrong-dimension, huge-dimension, aliased, null-optional, garbage streams). Judged for every call without per-function knowledge: no C++ exception crosses the boundary, the return value is non-negative or a documented error code, the registered handler runs exactly once with that code iff the call failed, output handles are written iff the call succeeded, handles passed as const denote the same value afterwards, every handle is deletable exactly once, nothing is unreachable at teardown; with an injected fault the documented code (PPL_ERROR_OUT_OF_MEMORY, PPL_TIMEOUT_EXCEPTION) is returned, the timeout can be reset and the call repeated, and all handles remain deletable. A clean batch is evidence, not proof.",
   note="Generic wrapper laws, not result-by-result comparison with the C++ operation (the C++ operations themselves are covered by C01-C15 on the same library objects). 1812 of 1986 prototypes have thunks; iterators, PIP tree views and protocol functions are excluded from random calls (listed by tools/gen_capi_thunks.py). Four leak families inside gmpxx are listed as known findings."),
 "C04": dict(
   category="exploration", design_ref="DESIGN.md §4 C04",
   technique="deterministic simulation of operation histories over rational BD shapes, octagons and boxes; refinement against an eager twin plus pointwise evaluation of each operator's definition",
   text="Seeded histories drive the closed/non-closed/reduced matrix states; after every operation OK() must hold, const operands keep their set, the twin (re-built from the object's own constraints) must give equal results and answers, and exact operators (adding native constraints, intersection, concatenation, embedding) must produce exactly the pointwise-defined set on the probe points while the others must not lose points; definite predicate answers are refuted by member points.",
   note="Best-ness of upper bounds and of the constructors from polyhedra is judged against LP suprema along the template directions; the relational transformers (bounded / generalized affine image and preimage, both overload families) and simplify_using_context_assign (meet-preserving enlargement) by witness and probe points. Two known findings pinned by existing tests (F40 octagon refine, F41 box simplification with an empty meet)."),
 "C05": dict(
   category="exploration", design_ref="DESIGN.md §4 C05",
   technique="deterministic simulation of operation histories over grids; refinement against an eager twin plus pointwise evaluation of each operator's definition",
   text="Seeded histories over grids with non-unit divisors, parameters and lines; after every operation OK(), const-ness, twin equality of values and of every query answer (twin alternately built from minimized congruences and from minimized generators, so that the two descriptions are cross-checked through the library's own conversion), and pointwise definition checks on probe points.",
   note="The agreement of the two descriptions is established through twins built from each description; an independent HNF lattice-membership oracle is not built."),
 "C06": dict(
   category="exploration", design_ref="DESIGN.md §4 C06",
   technique="deterministic simulation of solve/mutator interleavings against a reference model: fresh-problem twin, exact rational simplex, brute-force enumeration of boxed integer variables",
   text="Seeded histories interleave solve / is_satisfiable / point queries with incremental mutators under the three pricing rules; every judged solve must agree with a fresh problem built from the object's own getters (status and optimum, all pricings), returned points must satisfy every constraint and integrality, the optimum must equal the objective at the witness, and status/optimum must equal an independent exact simplex (plus enumeration of the integer box).",
   note="Integer variables are always boxed; abandoned solves (C14) are not part of this check."),
 "C09": dict(
   category="exploration", design_ref="DESIGN.md §4 C09",
   technique="deterministic simulation of disjunct histories with copy-on-write interleavings; pointwise evaluation of the union against each operator's definition plus eager twin",
   text="Seeded histories over powersets of C/NNC polyhedra and grids; after every operation: OK(), the union (membership of probe points in some disjunct, evaluated by the harness) is exactly what the base-level definition dictates (add_disjunct, constraints, meet, upper bound, affine image/preimage, concatenation, embedding), is unchanged by omega-reduction, pairwise reduction, size(), iteration, ==, copying, collapse only gains points and equals the base-level upper bound, simplification preserves the meet with the context and does not add disjuncts, definite answers of covers/equals/contains/entails/disjoint are refuted by points; copies stay unaffected by later changes to the original.",
   note="Exact covering (harness-side 'cover' oracle) is not built: geometric covering/equality are judged for soundness on probe points and for representation independence through twins. BD-shape disjuncts are not instantiated."),
 "C10": dict(
   category="exploration", design_ref="DESIGN.md §4 C10",
   technique="deterministic simulation of transformer/reduction interleavings over products; the intersection of the unreduced components as reference",
   text="Seeded histories over seven product instantiations; the intersection of the UNREDUCED components (read directly) must be unchanged by every observer (each observer triggers a reduction), OK() must hold after every completed operation, transformers must contain the pointwise-defined image of the intersection, definite predicate answers are refuted by points of the intersection. Two genuine defects are listed as known findings (component-wise difference_assign; Grid projection of the zero-dimensional universe).",
   note="Probe-point based: a lost point is a proof, absence of alarms is not. Box and octagon components are not instantiated."),
 "C07": dict(
   category="exploration", design_ref="DESIGN.md §4 C07",
   technique="deterministic simulation of solve/mutator/strategy interleavings against brute-force enumeration of the lexicographic minimum for every parameter assignment of a box; bounded-step liveness on maybe_abandon() checkpoints",
   text="Seeded histories over tiny parametric problems: after every solve (incremental or first) and for fresh problems built from the object's own getters under the strategy settings, the solution tree is walked exactly as documented for every parameter assignment in [0,4]^p and must give the brute-force lexicographic minimum, bottom exactly when the region has no non-negative integer point, never refer to an undeclared artificial parameter, and solve() must return within the checkpoint budget.",
   note="Big parameter not exercised; parameters bounded in 80% of the plans. 21 genuine defects of the PIP solver were repaired on the way (fix: commits)."),
 "C08": dict(
   category="exploration", design_ref="DESIGN.md §4 C08",
   technique="deterministic simulation of adversarial ascending chains with representation twins, certificate monitoring and the token protocol",
   text="Seeded ascending chains: every widening result contains the larger argument, equals the result on canonical twins of both arguments, strictly decreases the convergence certificate on every non-stationary step; with tokens the object is unchanged and a token is consumed exactly when plain widening would lose precision; limited/bounded extrapolations lie between the larger argument and the plain widening and keep the supplied constraints the larger argument satisfies.",
   note="Powerset widenings (BHZ03 with the H79 and BHRZ03 certificates, BGP99) are driven over chains whose previous iterate definitely entails the enlarged powerset: OK(), covering of the larger argument and - for BHZ03 - stabilisation in the ordering of the operator's certificate; representation independence is not judged for powersets. The two compare() overloads of the certificate classes must agree. One known finding (NNC polyhedra that are not topologically closed: documented representation dependence of H79/BHRZ03; no current witness plan)."),
}

NOT_APPLICABLE = {
 "C02": "pure function of one call's inputs (point sets of the arguments): no schedule, clock, fault or history in the statement; generating inputs would be random testing under another name (DESIGN.md §2)",
 "C03": "pure function of (arguments, numeric type parameter); 'configurations' are template arguments, nothing a simulator schedules (DESIGN.md §2)",
 "C11": "checked-number primitives are pure functions of operands and rounding direction; the bounded-coefficient clause needs a differently configured build with input-determined overflows (DESIGN.md §2)",
 "C12": "interval and linear-form enclosure are pure functions of operands (DESIGN.md §2)",
 "C17": "wrap / drop-non-integer / integer-point queries are pure functions of their inputs (DESIGN.md §2)",
 "C18": "termination tests and ranking-function synthesis are pure functions of the loop relation (DESIGN.md §2)",
}
# claimed in DESIGN.md but not built yet: listed as not applicable *for now* with that reason
PENDING = {}
# built, but not registered until quiet on the unchanged tree (triage in progress)
HOLD = set()

def main():
    props = [json.loads(l)["id"] for l in open(os.path.join(ROOT, "properties.jsonl"))]
    checks = []
    for pid in props:
        if pid in CLAIMED and pid not in HOLD:
            c = CLAIMED[pid]
            checks.append(dict(
                property_id=pid,
                quick_cmd="./check %s quick" % pid,
                thorough_cmd="./check %s thorough" % pid,
                evidence_file="/verif/evidence/%s.json" % pid,
                replay_cmd_template="./check --replay {path}",
                engine="sim",
                level_claimed=dict(category=c["category"], text=c["text"], design_ref=c["design_ref"]),
                level_note=c["note"],
                technique=c["technique"]))
    na = []
    for pid in props:
        if pid in CLAIMED and pid not in HOLD:
            continue
        if pid in NOT_APPLICABLE:
            na.append(dict(property_id=pid, reason=NOT_APPLICABLE[pid]))
        else:
            na.append(dict(property_id=pid, reason=PENDING.get(pid, "designed (DESIGN.md §4) but its harness is not built yet in this tree; not claimed until its check exists and is quiet on the unchanged tree")))
    m = dict(
        version=1,
        setup_cmd="./check --build",
        hooks=dict(guard="PPL_VERIF",
                   enable="every library and harness translation unit is compiled by /verif/Makefile with -DPPL_VERIF (objects under /verif/_build); the in-tree autotools build of /repo never defines it",
                   baseline_off_cmd="cd /repo && make -k check",
                   source_commits=repo_commits(),
                   add_only=True),
        engines=[dict(name="sim", path="/verif/sim", serves_properties=sorted(set(CLAIMED) - HOLD),
                      kind_free_text="deterministic simulation kernel: seeded plans, process-per-run executor, simulated timer/allocator/stream seams, fault branches, delta-debugging shrinker, replay files")],
        checks=checks,
        not_applicable=na,
        notes="See DESIGN.md. Known findings: known_findings.json. Seeded-mutant corpus: seeded/.")
    with open(os.path.join(ROOT, "MANIFEST.json"), "w") as f:
        json.dump(m, f, indent=1)
        f.write("\n")

main()
