#!/bin/sh
# Regenerates the C interface sources from the m4 templates of the CURRENT /repo tree
# (same commands as interfaces/C/Makefile.am) into the directory given as $1.
set -e
REPO=${REPO:-/repo}
OUT=$1
mkdir -p "$OUT"
cd "$OUT"
I="-I$REPO/interfaces -I$REPO/interfaces/C"
m4 --prefix-builtin $I $REPO/interfaces/C/ppl_interface_generator_c_h.m4 > ppl_c_domains.h
rm -f ppl_c_*.cc ppl_c_*.hh
m4 --prefix-builtin $I $REPO/interfaces/C/ppl_interface_generator_c_cc_files.m4 > ppl_c_cc_blob
sh $REPO/utils/cm_cleaner.sh ./ppl_c_cc_blob
sh $REPO/utils/cm_splitter.sh ./ppl_c_cc_blob
rm -f ppl_c_cc_blob
m4 --prefix-builtin $I $REPO/interfaces/C/ppl_interface_generator_c_hh_files.m4 > ppl_c_hh_blob
sh $REPO/utils/cm_cleaner.sh ./ppl_c_hh_blob
sh $REPO/utils/cm_splitter.sh ./ppl_c_hh_blob
rm -f ppl_c_hh_blob
# ppl_c.h: the real build inlines ppl_c_version.h and ppl_c_domains.h into ppl_c_header.h; including them is equivalent
cp $REPO/interfaces/C/ppl_c_header.h ppl_c.h
cp $REPO/interfaces/C/ppl_c_version.h .
cp $REPO/interfaces/C/ppl_c_implementation_common.cc $REPO/interfaces/C/ppl_c_implementation_common_defs.hh $REPO/interfaces/C/ppl_c_implementation_common_inlines.hh .

# ppl.hh: the amalgamated header in src/ is a build product that does not follow edits of the individual
# headers; the interface must be compiled against the CURRENT headers, exactly like the library objects
# (src/ppl_header.hh is the un-expanded source of ppl.hh: same text with the includes left as includes)
echo '#include "ppl_header.hh"' > ppl.hh
ls ppl_c_*.cc | wc -l
