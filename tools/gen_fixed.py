#!/usr/bin/env python3
"""Rewrites the status=fixed entries of known_findings.json from the "fix:" commits of /repo
(one entry per commit: "fixed: property=<id> <commit> <what failed>").  Fixed entries suppress nothing."""
import json, os, re, subprocess
ROOT = os.path.dirname(os.path.dirname(os.path.abspath(__file__)))
RULES = [
 (r"linear_combine_lax", "C16"),
 (r"^fix: C interface", "C20"),
 (r"^fix: Pointset_Powerset::simplify_using_context_assign", "C09"),
 (r"^fix: Interval::simplify_using_context_assign", "C04"),
 (r"^fix: Grid::simplify_using_context_assign", "C05"),
 (r"^fix: Polyhedron::simplify_using_context_assign", "C01"),
 (r"generator_widening_assign|Certificate::compare", "C08"),
 (r"BD_Shape limited extrapolations divided by zero|CC76_widening_assign\(\) did not check the dimension|map_space_dimensions\(\) of an empty powerset", "C20"),
 (r"update_generators\(\)/update_constraints\(\) cut short", "C14"),
 (r"set the status to optimized before a copy|lost its integer variables when the temporary relaxation", "C14"),
 (r"Box::generalized_affine_image\(lhs", "C04"),
 (r"aliased operands", "C16"),
 (r"cut short|leaked the constraints copied so far|space dimension overflow|beyond max_space_dimension", "C14"),
 (r"limited extrapolations divided by zero", "C08"),
 (r"floating point values of magnitude below 1", "C15"),
 (r"simplify_using_context_assign\(\) of floating point", "C13"),
 (r"Octagonal_Shape::maximize/minimize with a point|upper_bound_assign_if_exact|Box::relation_with\(Generator\)|Box::generalized_affine_preimage", "C04"),
 (r"Time::operator==|reschedule\(\)|less_than\(\)", "C19"),
 (r"CO_Tree\(Iterator|leaked the copied constraints|applied a prefix of the system", "C14"),
 (r"Status::ascii_load|Pointset_Powerset::ascii_load|PIP_Decision_Node::ascii_load", "C15"),
 (r"Dense_Row", "C16"),
 (r"BHRZ03|left a common factor in the divisor", "C08"),
 (r"Partially_Reduced_Product|product_reduce", "C10"),
 (r"Pointset_Powerset|approximate_partition", "C09"),
 (r"PIP_", "C07"), (r"incremental PIP|PIP tree", "C07"),
 (r"MIP_Problem", "C06"),
 (r"Grid", "C05"),
 (r"BD_Shape|Octagonal_Shape|Box::", "C04"),
 (r"Polyhedron|topological_closure_assign|positive_time_elapse|refine_no_check", "C01"),
]
log = subprocess.run("git -C /repo log --format=%h%x09%s", shell=True, stdout=subprocess.PIPE, text=True).stdout.splitlines()
fixed = []
for l in log:
    h, s = l.split("\t", 1)
    if not s.startswith("fix:"):
        continue
    prop = next((p for r, p in RULES if re.search(r, s)), "C01")
    fixed.append(dict(id="FX-" + h, property=prop, status="fixed", commit=h, signature="^$",
                      description="fixed: property=%s %s %s" % (prop, h, s[4:].strip())))
p = os.path.join(ROOT, "known_findings.json")
d = json.load(open(p))
d["findings"] = [f for f in d["findings"] if f.get("status") != "fixed"] + fixed
json.dump(d, open(p, "w"), indent=1)
print(len(fixed), "fixed entries;", len([f for f in d["findings"] if f["status"] == "open"]), "open")
