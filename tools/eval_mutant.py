#!/usr/bin/env python3
"""Confirms a seeded change and runs the checks against it.

  tools/eval_mutant.py <name> <dir-with-patch.diff-demo.cc-meta.json> [--checks C01,C13] [--tests Polyhedron,Grid] [--tier quick]

1. scratch worktree /tmp/mut_eval (created once, removed with --cleanup): the demo must exit 0 on the unchanged
   library and 1 with the patch; the existing tests of the given directories must pass with the patch
   (static re-build of the library and of the test programs: /tmp/mut_tools/*.sh, copies kept in tools/mut_tools/).
2. the patch is applied to /repo (git apply), the registered checks are run, and /repo is restored
   (git checkout -- .) straight afterwards.
3. everything is recorded in /verif/seeded/<name>/ (patch.diff, demo.cc, meta.json)."""
import json, os, shutil, subprocess, sys, time

ROOT = os.path.dirname(os.path.dirname(os.path.abspath(__file__)))
WT = "/tmp/mut_eval"


def sh(cmd, **kw):
    return subprocess.run(cmd, shell=True, stdout=subprocess.PIPE, stderr=subprocess.STDOUT, text=True, **kw)


def ensure_wt():
    head = sh("git -C /repo rev-parse HEAD").stdout.strip()
    if os.path.exists(WT + "/.git"):
        cur = sh("git -C %s rev-parse HEAD" % WT).stdout.strip()
        if cur != head:
            sh("git -C %s checkout -q -- . && git -C %s checkout -q --detach %s" % (WT, WT, head))
    else:
        r = sh("/tmp/mut_tools/mk_worktree.sh mut_eval")
        if r.returncode != 0:
            print(r.stdout); sys.exit(2)
    sh("cp /repo/config.h /repo/ppl-config.h %s/" % WT)
    r = sh("/tmp/mut_tools/build_lib.sh %s 16" % WT)
    if r.returncode != 0:
        print(r.stdout[-3000:]); sys.exit(2)


CAPI = False


def build_demo(demo, out):
    if CAPI:
        b = sh("/tmp/mut_tools/build_capi.sh %s 16" % WT)
        if b.returncode != 0:
            return False, b.stdout[-2000:]
        r = sh("g++ -std=gnu++17 -O1 -w -I%s/_mut/capi %s %s/_mut/libppl_c.a %s/_mut/libppl.a -lgmpxx -lgmp -o %s" % (WT, demo, WT, WT, out))
    else:
        r = sh("g++ -std=gnu++17 -O1 -w -frounding-math -DHAVE_CONFIG_H -I%s -I%s/src %s %s/_mut/libppl.a -lgmpxx -lgmp -o %s" % (WT, WT, demo, WT, out))
    return r.returncode == 0, r.stdout[-2000:]


def main():
    a = sys.argv[1:]
    if a and a[0] == "--cleanup":
        sh("git -C /repo worktree remove --force %s" % WT); return
    name, src = a[0], a[1]
    checks, tests, tier = [], [], "quick"
    i = 2
    while i < len(a):
        if a[i] == "--checks": checks = a[i + 1].split(","); i += 2
        elif a[i] == "--tests": tests = [t for t in a[i + 1].split(",") if t]; i += 2
        elif a[i] == "--tier": tier = a[i + 1]; i += 2
        else: i += 1
    meta = json.load(open(src + "/meta.json"))
    global CAPI
    CAPI = meta.get("property") == "C20"
    if not checks:
        checks = [meta.get("property")]
    dst = "%s/seeded/%s" % (ROOT, name)
    os.makedirs(dst, exist_ok=True)
    for f in ("patch.diff", "demo.cc"):
        shutil.copy(src + "/" + f, dst + "/" + f)
    res = dict(meta)
    res["origin"] = "written by a fresh sub-agent that saw only the property text and its own scratch worktree"
    ensure_wt()
    # 1. demo on the unchanged library
    ok, log = build_demo(dst + "/demo.cc", "/tmp/mut_eval_demo0")
    r0 = sh("timeout 600 /tmp/mut_eval_demo0").returncode if ok else -1
    # 2. apply in the scratch worktree, rebuild, demo, tests
    ap = sh("git -C %s apply %s/patch.diff" % (WT, dst))
    if ap.returncode != 0:
        res["verified"] = dict(applies=False, log=ap.stdout[-500:])
        json.dump(res, open(dst + "/meta.json", "w"), indent=1); print("patch does not apply"); return
    b = sh("/tmp/mut_tools/build_lib.sh %s 16" % WT)
    compiles = b.returncode == 0
    r1 = -1
    tests_res = {}
    if compiles:
        ok1, log1 = build_demo(dst + "/demo.cc", "/tmp/mut_eval_demo1")
        r1 = sh("timeout 600 /tmp/mut_eval_demo1").returncode if ok1 else -1
        for t in tests:
            sh("rm -rf %s/_mut/t_%s" % (WT, t))
            tr = sh("/tmp/mut_tools/run_tests.sh %s %s 16" % (WT, t))
            tests_res[t] = tr.stdout.strip().split("\n")
    sh("git -C %s checkout -q -- ." % WT)
    sh("/tmp/mut_tools/build_lib.sh %s 16" % WT)
    res["verified"] = dict(applies=True, compiles=compiles, demo_exit_unchanged=r0, demo_exit_with_change=r1, existing_tests_with_change=tests_res,
                           repo_head=sh("git -C /repo rev-parse --short HEAD").stdout.strip())
    print("demo: unchanged=%s with change=%s; tests: %s" % (r0, r1, {k: v[0] if v else "" for k, v in tests_res.items()}))
    # 3. the checks against /repo with the patch applied
    det = {}
    ap = sh("git -C /repo apply %s/patch.diff" % dst)
    try:
        if ap.returncode == 0:
            for c in checks:
                t0 = time.time()
                r = sh("./check %s %s" % (c, tier), cwd=ROOT)
                viol = [l for l in r.stdout.split("\n") if l.startswith("VIOLATION") or l.startswith("  class:")]
                det[c] = dict(exit=r.returncode, seconds=round(time.time() - t0, 1), lines=viol[:8])
                print("check %s %s: exit %d %s" % (c, tier, r.returncode, viol[1][:200] if len(viol) > 1 else ""))
    finally:
        sh("git -C /repo checkout -- .")
    res["detection"] = det
    res["detected_by"] = [c for c, d in det.items() if d["exit"] == 1]
    json.dump(res, open(dst + "/meta.json", "w"), indent=1)


main()
