#!/bin/sh
# usage: mk_worktree.sh <name>   -> /tmp/<name>: detached git worktree of /repo HEAD plus the generated headers
set -e
WT=/tmp/$1
git -C /repo worktree add --detach $WT HEAD >/dev/null
cp /repo/config.h /repo/ppl-config.h $WT/
for f in /repo/src/*.hh; do [ -f $WT/src/$(basename $f) ] || cp $f $WT/src/; done
echo $WT
