#!/bin/sh
# usage: build_lib.sh <worktree> [jobs]  -> <worktree>/_mut/libppl.a (static library of the worktree's src/, same flags as the real build)
set -e
WT=$1; J=${2:-6}
mkdir -p $WT/_mut/obj
SRCS=$(sed -n '/^libppl_la_SOURCES/,/^$/p' $WT/src/Makefile.am | grep -v '^#' | grep -o '[A-Za-z0-9_-]*\.cc')
cat > $WT/_mut/Makefile <<EOM
OBJS := \$(patsubst %.cc,obj/%.o,$(echo $SRCS))
libppl.a: \$(OBJS)
	@rm -f \$@; ar rcs \$@ \$(OBJS)
obj/%.o: ../src/%.cc
	g++ -std=gnu++17 -O2 -w -frounding-math -MMD -MP -DHAVE_CONFIG_H -I.. -I../src -c \$< -o \$@
-include \$(wildcard obj/*.d)
EOM
make -s -C $WT/_mut -j$J libppl.a
echo "built $WT/_mut/libppl.a"
