#!/usr/bin/env python3
"""usage: run_tests.sh <worktree> <tests-subdir> [jobs]
Compiles every test source of <worktree>/tests/<subdir> (with that directory's default instance flags; the
"nnc_" derived tests named in its Makefile.am are built from the base source with -DDERIVED_TEST) against
<worktree>/_mut/libppl.a (see build_lib.sh) and runs it.  Prints a summary and the tests that do not pass."""
import os, re, subprocess, sys
from concurrent.futures import ThreadPoolExecutor
wt, d = sys.argv[1], sys.argv[2]
jobs = int(sys.argv[3]) if len(sys.argv) > 3 else 6
T = wt + "/tests"; O = "%s/_mut/t_%s" % (wt, d)
os.makedirs(O, exist_ok=True)
base = ["g++", "-std=gnu++17", "-O1", "-w", "-frounding-math", "-DHAVE_CONFIG_H", "-I" + wt, "-I" + wt + "/src", "-I" + T, "-I" + T + "/" + d]
if not os.path.exists(wt + "/_mut/libppl_tests.a"):
    for f in ("files", "ppl_test"):
        subprocess.check_call(base + ["-c", "%s/%s.cc" % (T, f), "-o", "%s/_mut/%s.o" % (wt, f)])
    subprocess.check_call(["ar", "rcs", wt + "/_mut/libppl_tests.a", wt + "/_mut/files.o", wt + "/_mut/ppl_test.o"])
flags = {"BD_Shape": ["-DBD_SHAPE_INSTANCE=mpq_class"], "Octagonal_Shape": ["-DOCTAGONAL_SHAPE_INSTANCE=mpq_class"], "Box": ["-DBOX_INSTANCE=rt_r_oc"]}.get(d, [])
names = sorted(f[:-3] for f in os.listdir(T + "/" + d) if f.endswith(".cc"))
jobs_list = [(n, "%s/%s/%s.cc" % (T, d, n), []) for n in names]
mk = open("%s/%s/Makefile.am" % (T, d)).read()
for dn in sorted(set(re.findall(r"\bnnc_[A-Za-z0-9_]+", mk))):
    b = dn[4:]
    if b in names and dn not in names:
        jobs_list.append((dn, "%s/%s/%s.cc" % (T, d, b), ["-DDERIVED_TEST"]))
def run(job):
    n, src, extra = job
    r = subprocess.run(base + flags + extra + [src, wt + "/_mut/libppl_tests.a", wt + "/_mut/libppl.a", "-lgmpxx", "-lgmp", "-o", O + "/" + n], stdout=subprocess.DEVNULL, stderr=open(O + "/" + n + ".err", "w"))
    if r.returncode != 0:
        return n, "BUILDFAIL"
    try:
        r = subprocess.run(["./" + n], cwd=O, stdout=open(O + "/" + n + ".out", "w"), stderr=subprocess.STDOUT, timeout=900)
    except subprocess.TimeoutExpired:
        return n, "TIMEOUT"
    return n, "PASS" if r.returncode == 0 else "FAIL"
with ThreadPoolExecutor(jobs) as ex:
    res = list(ex.map(run, jobs_list))
cnt = {}
for n, s in res:
    cnt[s] = cnt.get(s, 0) + 1
print("tests/%s: " % d + " ".join("%s=%d" % kv for kv in sorted(cnt.items())))
for n, s in res:
    if s != "PASS":
        print("  %s %s" % (s, n))
sys.exit(0 if set(cnt) <= {"PASS"} else 1)
