#!/bin/sh
# usage: build_capi.sh /tmp/<name> [jobs]
# Regenerates the C language interface of the worktree with m4 (same commands as interfaces/C/Makefile.am), compiles it
# and leaves  /tmp/<name>/_mut/capi/ppl_c.h (+ ppl_c_version.h, ppl_c_domains.h)  and  /tmp/<name>/_mut/libppl_c.a .
# Link a C or C++ program with:  <prog> /tmp/<name>/_mut/libppl_c.a /tmp/<name>/_mut/libppl.a -lgmpxx -lgmp -lstdc++ -lm
# (compile with -I/tmp/<name>/_mut/capi).  Run build_lib.sh first.  Incremental (make).
set -e
WT=$1; J=${2:-6}
OUT=$WT/_mut/capi
mkdir -p $OUT
cp -n /repo/interfaces/ppl_interface_instantiations.m4 $WT/interfaces/ 2>/dev/null || true
cp -n /repo/interfaces/C/ppl_c_version.h $WT/interfaces/C/ 2>/dev/null || true
cd $OUT
I="-I$WT/interfaces -I$WT/interfaces/C"
STAMP=.gen_stamp
if [ ! -f $STAMP ] || [ -n "$(find $WT/interfaces -newer $STAMP -name '*.m4' -o -newer $STAMP -name 'ppl_c_*' | head -1)" ]; then
  m4 --prefix-builtin $I $WT/interfaces/C/ppl_interface_generator_c_h.m4 > ppl_c_domains.h
  rm -f ppl_c_*.cc ppl_c_*.hh
  m4 --prefix-builtin $I $WT/interfaces/C/ppl_interface_generator_c_cc_files.m4 > blob_cc
  sh $WT/utils/cm_cleaner.sh ./blob_cc; sh $WT/utils/cm_splitter.sh ./blob_cc; rm -f blob_cc
  m4 --prefix-builtin $I $WT/interfaces/C/ppl_interface_generator_c_hh_files.m4 > blob_hh
  sh $WT/utils/cm_cleaner.sh ./blob_hh; sh $WT/utils/cm_splitter.sh ./blob_hh; rm -f blob_hh
  cp $WT/interfaces/C/ppl_c_header.h ppl_c.h
  cp $WT/interfaces/C/ppl_c_version.h .
  cp $WT/interfaces/C/ppl_c_implementation_common.cc $WT/interfaces/C/ppl_c_implementation_common_defs.hh $WT/interfaces/C/ppl_c_implementation_common_inlines.hh .
  echo '#include "ppl_header.hh"' > ppl.hh
  touch $STAMP
fi
cat > Makefile.capi <<M
SRCS := \$(wildcard ppl_c_*.cc)
OBJS := \$(SRCS:.cc=.o)
../libppl_c.a: \$(OBJS)
	rm -f \$@; ar rcs \$@ \$(OBJS)
%.o: %.cc
	g++ -std=gnu++17 -O1 -w -frounding-math -MMD -MP -DHAVE_CONFIG_H -I$WT -I$WT/src -I. -I$WT/interfaces -c \$< -o \$@
-include \$(wildcard *.d)
M
make -s -j$J -f Makefile.capi
echo "built $WT/_mut/libppl_c.a"
