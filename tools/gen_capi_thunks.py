#!/usr/bin/env python3
"""Generates one thunk per entry point of the C interface from the PREPROCESSED ppl_c.h
(usage: gen_capi_thunks.py <preprocessed header> <out.inc>).  A thunk takes its arguments from typed
pools of handles / payload integers (class CallCtx in sim/harness/capi.cc), calls the entry point inside
a catch-all, and registers outputs.  Entry points that need a protocol (initialisation, error handler,
timeouts, iterators, PIP tree nodes, printing to stdout) are not called at random: they are listed in
EXCLUDE and exercised, where it makes sense, by scripted operations of the harness."""
import re, sys, collections

src, out = sys.argv[1], sys.argv[2]
defined = set(open(sys.argv[3]).read().split()) if len(sys.argv) > 3 else None
t = open(src).read()
protos = [(n, ' '.join(a.split())) for n, a in re.findall(r'\bint\s+(ppl_\w+)\s*\(([^;{}]*?)\)\s*;', t)]

EXCLUDE_RE = re.compile(r'^(ppl_initialize|ppl_finalize|ppl_set_error_handler|ppl_set_timeout|ppl_reset_timeout|ppl_set_deterministic_timeout|'
                        r'ppl_reset_deterministic_timeout|ppl_set_rounding_for_PPL|ppl_restore_pre_PPL_rounding|ppl_irrational_precision|'
                        r'ppl_set_irrational_precision|ppl_version.*|ppl_banner|ppl_io_print_.*|ppl_io_wrap_string|ppl_io_set_variable_output_function|'
                        r'ppl_io_get_variable_output_function|ppl_max_space_dimension|ppl_not_a_dimension)$')
# handle types that are views into another object (iterators, tree nodes): never pooled, never passed at random
VIEW_TYPES = re.compile(r'(_iterator$|^PIP_Tree_Node$|^PIP_Decision_Node$|^PIP_Solution_Node$|^Artificial_Parameter)')

htypes = []
for m in re.finditer(r'typedef struct ppl_(\w+)_tag\* ppl_\w+_t;', t):
    if m.group(1) not in htypes:
        htypes.append(m.group(1))
hidx = {h: i for i, h in enumerate(htypes)}

enums = {}
for m in re.finditer(r'enum (ppl_enum_\w+)\s*\{([^}]*)\}', t):
    vals = [v.split('=')[0].strip() for v in m.group(2).split(',') if v.strip()]
    enums[m.group(1)] = vals

lines = []
table = []
skipped = collections.Counter()
undefined = []
for name, args in protos:
    if EXCLUDE_RE.match(name):
        skipped['excluded'] += 1
        continue
    if defined is not None and name not in defined:
        skipped['declared-but-not-defined'] += 1
        undefined.append(name)
        continue
    arglist = [] if args == 'void' else [a.strip() for a in args.split(',')]
    body, call, post, ok = [], [], [], True
    nh_in = 0
    for i, a in enumerate(arglist):
        m = re.match(r'(.*?)(\w+)(\[\])?$', a)
        if not m:
            ok = False; break
        ty = (m.group(1).strip() + (m.group(3) or '')).strip()
        v = 'a%d' % i
        hm = re.match(r'^(const )?ppl_(const_)?(\w+)_t(\*)?$', ty)
        if ty == 'ppl_dimension_type':
            body.append('ppl_dimension_type %s = C.dim();' % v); call.append(v)
        elif ty == 'ppl_dimension_type[]':
            body.append('ppl_dimension_type %s[4]; size_t %s_n = C.dims(%s);' % (v, v, v)); call.append(v)
        elif ty == 'size_t':
            # by convention follows an array argument
            prev = 'a%d' % (i - 1)
            body.append('size_t %s = %s_n;' % (v, prev) if i > 0 and arglist[i - 1].endswith('[]') else 'size_t %s = (size_t) C.small();' % v); call.append(v)
        elif ty == 'ppl_dimension_type*':
            body.append('ppl_dimension_type %s = 0;' % v); call.append('&' + v)
        elif ty == 'ppl_dimension_type**':
            ok = False; break
        elif ty == 'size_t*':
            body.append('size_t %s = 0;' % v); call.append('&' + v)
        elif ty == 'int':
            an = m.group(2)
            if an == 'complexity':     # enum-like int: only the three documented classes (others make the wrappers return 0 without output)
                body.append('int %s = (int) C.mod(3);' % v)
            else:
                body.append('int %s = C.small_int();' % v)
            call.append(v)
        elif ty == 'int*':
            body.append('int %s = 0;' % v); call.append('&' + v)
        elif ty == 'unsigned':
            body.append('unsigned %s = (unsigned) C.small();' % v); call.append(v)
        elif ty == 'unsigned long':
            body.append('unsigned long %s = (unsigned long) C.small();' % v); call.append(v)
        elif ty == 'unsigned*':
            body.append('unsigned %s = (unsigned) C.small();' % v); call.append('&' + v)
        elif ty.startswith('enum '):
            en = ty[5:]
            vals = enums.get(en)
            if not vals:
                ok = False; break
            body.append('static const enum %s %s_vals[] = { %s }; enum %s %s = %s_vals[C.mod(%d)];' % (en, v, ', '.join(vals), en, v, v, len(vals))); call.append(v)
        elif ty == 'FILE*':
            body.append('FILE* %s = C.file(%s);' % (v, 'true' if 'ascii_load' in name else 'false')); call.append(v)
            post.append('C.close_file(%s);' % v)
        elif ty == 'char**':
            body.append('char* %s = nullptr;' % v); call.append('&' + v); post.append('if (r >= 0 && %s) free(%s);' % (v, v))
        elif ty == 'const char**':
            body.append('const char* %s = nullptr;' % v); call.append('&' + v)
        elif ty == 'mpz_t':
            body.append('mpz_t %s; mpz_init_set_si(%s, C.small_int());' % (v, v)); call.append(v); post.append('mpz_clear(%s);' % v)
        elif hm:
            cst0, cst, H, ptr = hm.group(1), hm.group(2), hm.group(3), hm.group(4)
            if H not in hidx or VIEW_TYPES.search(H):
                ok = False; break
            if ptr and cst0:      # const ppl_const_X_t*: optional argument (pointer to a handle or NULL)
                body.append('ppl_const_%s_t %s_h = (ppl_const_%s_t) C.pick(%d, true, true); const ppl_const_%s_t* %s = %s_h ? &%s_h : nullptr;' % (H, v, H, hidx[H], H, v, v, v)); call.append(v)
            elif ptr and cst:     # output: borrowed reference
                body.append('ppl_const_%s_t %s = (ppl_const_%s_t) SENTINEL;' % (H, v, H)); call.append('&' + v)
                post.append('C.out_borrowed(r, (const void*) %s);' % v)
            elif ptr:             # output: new object owned by the caller
                body.append('ppl_%s_t %s = (ppl_%s_t) SENTINEL;' % (H, v, H)); call.append('&' + v)
                post.append('C.out_owned(r, %d, (void*) %s);' % (hidx[H], v))
            else:
                is_delete = name == 'ppl_delete_' + H
                body.append('ppl_%s%s_t %s = (ppl_%s%s_t) C.pick(%d, %s, false); if (!%s) return C.skip();' % ('const_' if cst else '', H, v, 'const_' if cst else '', H, hidx[H], 'true' if (cst and not is_delete) else 'false', v))
                call.append(v); nh_in += 1
                if is_delete:
                    post.append('C.deleted(r, %d, (void*) %s);' % (hidx[H], v))
        else:
            ok = False; break
    if not ok:
        skipped['unsupported-signature'] += 1
        continue
    k = len(table)
    lines.append('static int thunk_%d(CallCtx& C) {' % k)
    for b in body:
        lines.append('  ' + b)
    lines.append('  C.before();')
    lines.append('  int r = C.guard([&]() { return %s(%s); });' % (name, ', '.join(call)))
    for p in post:
        lines.append('  ' + p)
    lines.append('  return C.after(r);')
    lines.append('}')
    # domain class of the entry point (for reporting)
    table.append((name, k, nh_in))

with open(out, 'w') as f:
    f.write('// GENERATED by tools/gen_capi_thunks.py from the preprocessed ppl_c.h -- do not edit\n')
    f.write('static const char* const HTYPE_NAMES[] = { %s };\n' % ', '.join('"%s"' % h for h in htypes))
    f.write('static const int N_HTYPES = %d;\n' % len(htypes))
    f.write('\n'.join(lines) + '\n')
    f.write('struct ThunkDesc { const char* name; int (*fn)(CallCtx&); int n_handles_in; };\n')
    f.write('static const ThunkDesc THUNKS[] = {\n')
    for name, k, nh in table:
        f.write('  { "%s", thunk_%d, %d },\n' % (name, k, nh))
    f.write('};\nstatic const int N_THUNKS = %d;\n' % len(table))
    names = set(n for n, a in protos)
    f.write('typedef int (*DeleteFn)(const void*);\nstatic const DeleteFn DELETE_FN[] = {\n')
    for h in htypes:
        f.write('  %s,\n' % ('(DeleteFn) ppl_delete_%s' % h if ('ppl_delete_' + h) in names else 'nullptr'))
    f.write('};\n')
    f.write('static const int N_PROTOTYPES = %d;\n' % len(protos))
    f.write('static const char* const UNDEFINED_ENTRY_POINTS[] = { %s nullptr };\n' % ''.join('"%s", ' % u for u in undefined))
print('prototypes %d thunks %d skipped %s handle types %d' % (len(protos), len(table), dict(skipped), len(htypes)))
