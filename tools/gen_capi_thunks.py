#!/usr/bin/env python3
"""Generates one thunk per entry point of the C interface from the PREPROCESSED ppl_c.h
(usage: gen_capi_thunks.py <preprocessed header> <out.inc>).  A thunk takes its arguments from typed
pools of handles / payload integers (class CallCtx in sim/harness/capi.cc), calls the entry point inside
a catch-all, and registers outputs.  Entry points that need a protocol (initialisation, error handler,
timeouts, iterators, PIP tree nodes, printing to stdout) are not called at random: they are listed in
EXCLUDE and exercised, where it makes sense, by scripted operations of the harness."""
import re, sys, collections

src, out = sys.argv[1], sys.argv[2]
defined = set(open(sys.argv[3]).read().split()) if len(sys.argv) > 3 else None
t = open(src).read()
protos = [(n, ' '.join(a.split())) for n, a in re.findall(r'\bint\s+(ppl_\w+)\s*\(([^;{}]*?)\)\s*;', t)]

EXCLUDE_RE = re.compile(r'^(ppl_initialize|ppl_finalize|ppl_set_error_handler|ppl_set_timeout|ppl_reset_timeout|ppl_set_deterministic_timeout|'
                        r'ppl_reset_deterministic_timeout|ppl_set_rounding_for_PPL|ppl_restore_pre_PPL_rounding|ppl_irrational_precision|'
                        r'ppl_set_irrational_precision|ppl_thread_initialize|ppl_thread_finalize|ppl_version.*|ppl_banner|ppl_io_print_.*|ppl_io_wrap_string|ppl_io_set_variable_output_function|'
                        r'ppl_io_get_variable_output_function|ppl_max_space_dimension|ppl_not_a_dimension|'
                        # documented precondition whose violation is documented as undefined behaviour in the C++ class
                        # (Box::has_lower_bound / has_upper_bound: non-empty box, var within the space dimension)
                        r'ppl_\w+_has_(upper|lower)_bound)$')
# handle types that are views into another object (iterators, tree nodes): never pooled, never passed at random
VIEW_TYPES = re.compile(r'(_iterator$|^PIP_Tree_Node$|^PIP_Decision_Node$|^PIP_Solution_Node$|^Artificial_Parameter)')

htypes = []
for m in re.finditer(r'typedef struct ppl_(\w+)_tag\* ppl_\w+_t;', t):
    if m.group(1) not in htypes:
        htypes.append(m.group(1))
hidx = {h: i for i, h in enumerate(htypes)}
# ppl_Polyhedron_t handles denote C_Polyhedron or NNC_Polyhedron objects and the wrappers static_cast according to
# the NAME of the entry point: passing a handle of the other class is outside the interface's type discipline
# (undefined behaviour, not an 'ill-formed argument').  Two pools: hidx['Polyhedron'] holds C, NNC_POOL holds NNC.
NNC_POOL = len(htypes)


def poly_topology(name, is_output, argname='', variant=None):
    """'C', 'N' or 'any' for a Polyhedron-typed argument `argname` of entry point `name` (None: unknown -> no thunk)."""
    if variant:                      # linear_partition: both inputs and the output have the class of x
        return variant
    if is_output:
        m = re.match(r'ppl_new_(C|NNC)_Polyhedron_', name)
        return {'C': 'C', 'NNC': 'N'}[m.group(1)] if m else None
    # termination analysis: pset* as named by the entry point; the output spaces ph* are C (MS) or NNC (PR) polyhedra
    m = re.match(r'ppl_(termination_test|one_affine_ranking_function|all_affine_ranking_functions|all_affine_quasi_ranking_functions)_(MS|PR)_(.*?)(_2)?$', name)
    if m:
        if argname.startswith('pset'):
            m2 = re.match(r'(C|NNC)_Polyhedron$', m.group(3))
            return {'C': 'C', 'NNC': 'N'}[m2.group(1)] if m2 else None
        if argname.startswith('ph'):
            return 'C' if m.group(2) == 'MS' else 'N'
        return None
    if name.startswith('ppl_Polyhedron_') or name in ('ppl_delete_Polyhedron', 'ppl_io_fprint_Polyhedron', 'ppl_io_asprint_Polyhedron'):
        return 'any'
    m = re.search(r'_from_(C|NNC)_Polyhedron', name)
    if m:
        return {'C': 'C', 'NNC': 'N'}[m.group(1)]
    m = re.search(r'Pointset_Powerset_(C|NNC)_Polyhedron', name)
    if m:
        return {'C': 'C', 'NNC': 'N'}[m.group(1)]
    return None


enums = {}
for m in re.finditer(r'enum (ppl_enum_\w+)\s*\{([^}]*)\}', t):
    vals = [v.split('=')[0].strip() for v in m.group(2).split(',') if v.strip()]
    enums[m.group(1)] = vals

lines = []
table = []
skipped = collections.Counter()
undefined = []
protos_v = []
for name, args in protos:
    if name == 'ppl_Polyhedron_linear_partition':
        protos_v += [(name, args, 'C'), (name, args, 'N')]
    else:
        protos_v.append((name, args, None))
for name, args, variant in protos_v:
    if EXCLUDE_RE.match(name):
        skipped['excluded'] += 1
        continue
    if defined is not None and name not in defined:
        skipped['declared-but-not-defined'] += 1
        undefined.append(name)
        continue
    arglist = [] if args == 'void' else [a.strip() for a in args.split(',')]
    body, call, post, ok = [], [], [], True
    nh_in = 0
    for i, a in enumerate(arglist):
        m = re.match(r'(.*?)(\w+)(\[\])?$', a)
        if not m:
            ok = False; break
        ty = (m.group(1).strip() + (m.group(3) or '')).strip()
        v = 'a%d' % i
        hm = re.match(r'^(const )?ppl_(const_)?(\w+)_t(\*)?$', ty)
        if ty == 'ppl_dimension_type':
            body.append('ppl_dimension_type %s = C.dim();' % v); call.append(v)
        elif ty == 'ppl_dimension_type[]':
            body.append('ppl_dimension_type %s[4]; size_t %s_n = C.dims(%s);' % (v, v, v)); call.append(v)
        elif ty == 'size_t':
            # by convention follows an array argument
            prev = 'a%d' % (i - 1)
            body.append('size_t %s = %s_n;' % (v, prev) if i > 0 and arglist[i - 1].endswith('[]') else 'size_t %s = (size_t) C.small();' % v); call.append(v)
        elif ty == 'ppl_dimension_type*':
            body.append('ppl_dimension_type %s = 0;' % v); call.append('&' + v)
        elif ty == 'ppl_dimension_type**':
            ok = False; break
        elif ty == 'size_t*':
            body.append('size_t %s = 0;' % v); call.append('&' + v)
        elif ty == 'int':
            an = m.group(2)
            if an == 'complexity':     # enum-like int: only the three documented classes (others make the wrappers return 0 without output)
                body.append('int %s = (int) C.mod(3);' % v)
            else:
                body.append('int %s = C.small_int();' % v)
            call.append(v)
        elif ty == 'int*':
            body.append('int %s = 0;' % v); call.append('&' + v)
        elif ty == 'unsigned':
            body.append('unsigned %s = (unsigned) C.small();' % v); call.append(v)
        elif ty == 'unsigned long':
            body.append('unsigned long %s = (unsigned long) C.small();' % v); call.append(v)
        elif ty == 'unsigned*':
            body.append('unsigned %s = (unsigned) C.small();' % v); call.append('&' + v)
        elif ty.startswith('enum '):
            en = ty[5:]
            vals = enums.get(en)
            if not vals:
                ok = False; break
            body.append('static const enum %s %s_vals[] = { %s }; enum %s %s = %s_vals[C.mod(%d)];' % (en, v, ', '.join(vals), en, v, v, len(vals))); call.append(v)
        elif ty == 'FILE*':
            body.append('FILE* %s = C.file(%s);' % (v, 'true' if 'ascii_load' in name else 'false')); call.append(v)
            post.append('C.close_file(%s);' % v)
        elif ty == 'char**':
            body.append('char* %s = nullptr;' % v); call.append('&' + v); post.append('if (r >= 0 && %s) free(%s);' % (v, v))
        elif ty == 'const char**':
            body.append('const char* %s = nullptr;' % v); call.append('&' + v)
        elif ty == 'mpz_t':
            body.append('mpz_t %s; mpz_init_set_si(%s, C.small_int());' % (v, v)); call.append(v); post.append('mpz_clear(%s);' % v)
        elif hm:
            cst0, cst, H, ptr = hm.group(1), hm.group(2), hm.group(3), hm.group(4)
            if H not in hidx or VIEW_TYPES.search(H):
                ok = False; break
            if H == 'Polyhedron' and ptr and cst0:
                ok = False; break
            if ptr and cst0 and name.endswith('_wrap_assign'):
                # `pcs`: "possibly null"; a non-null system must mention only the wrapped variables (else documented
                # undefined behaviour), so random calls pass a null pointer or a pointer to a null handle only
                body.append('ppl_const_%s_t %s_h = nullptr; const ppl_const_%s_t* %s = C.mod(2) ? &%s_h : nullptr;' % (H, v, H, v, v)); call.append(v)
            elif ptr and cst0:      # const ppl_const_X_t*: optional argument (pointer to a handle or NULL)
                body.append('ppl_const_%s_t %s_h = (ppl_const_%s_t) C.pick(%d, true, true); const ppl_const_%s_t* %s = %s_h ? &%s_h : nullptr;' % (H, v, H, hidx[H], H, v, v, v)); call.append(v)
            elif ptr and cst:     # output: borrowed reference
                body.append('ppl_const_%s_t %s = (ppl_const_%s_t) SENTINEL;' % (H, v, H)); call.append('&' + v)
                post.append('C.out_borrowed(r, (const void*) %s);' % v)
            elif ptr:             # output: new object owned by the caller
                pool_i = hidx[H]
                if H == 'Polyhedron':
                    tp = poly_topology(name, True, m.group(2), variant)
                    if tp is None:
                        ok = False; break
                    pool_i = NNC_POOL if tp == 'N' else hidx[H]
                body.append('ppl_%s_t %s = (ppl_%s_t) SENTINEL;' % (H, v, H)); call.append('&' + v)
                post.append('C.out_owned(r, %d, (void*) %s);' % (pool_i, v))
            else:
                is_delete = name == 'ppl_delete_' + H
                pool_i, pool_j = hidx[H], -1
                if H == 'Polyhedron':
                    am = re.match(r'ppl_assign_(C|NNC)_Polyhedron_from_(C|NNC)_Polyhedron$', name)
                    if am:
                        tp = {'C': 'C', 'NNC': 'N'}[am.group(1 if i == 0 else 2)]
                    else:
                        tp = poly_topology(name, False, m.group(2), variant)
                    if tp is None:
                        ok = False; break
                    if tp == 'N':
                        pool_i = NNC_POOL
                    elif tp == 'any':
                        pool_j = NNC_POOL
                body.append('ppl_%s%s_t %s = (ppl_%s%s_t) C.pick(%d, %s, false, %d); if (!%s) return C.skip();' % ('const_' if cst else '', H, v, 'const_' if cst else '', H, pool_i, 'true' if (cst and not is_delete) else 'false', pool_j, v))
                call.append(v); nh_in += 1
                if is_delete:
                    post.append('C.deleted(r, %d, (void*) %s);' % (pool_i, v))
                    if pool_j >= 0:
                        post.append('C.deleted(r, %d, (void*) %s);' % (pool_j, v))
        else:
            ok = False; break
    if not ok:
        skipped['unsupported-signature'] += 1
        continue
    k = len(table)
    lines.append('static int thunk_%d(CallCtx& C) {' % k)
    for b in body:
        lines.append('  ' + b)
    if re.search(r'(widening|extrapolation)_assign', name) and nh_in >= 2:
        # documented precondition of every widening / extrapolation: the argument is contained in the receiver
        # (NNC polyhedra even intersect the argument with the receiver under that assumption)
        lines.append('  if (!C.ensure_contains((void*) a0, (const void*) a1)) return C.skip();')
    if name.endswith('_ascii_load') and nh_in >= 1:
        # an object whose ascii_load failed is in an unspecified state: it may only be destroyed
        post.append('C.after_load(r, (void*) a0);')
    lines.append('  C.before();')
    lines.append('  int r = C.guard([&]() { return %s(%s); });' % (name, ', '.join(call)))
    for p in post:
        lines.append('  ' + p)
    lines.append('  return C.after(r);')
    lines.append('}')
    # domain class of the entry point (for reporting)
    table.append((name + ('#NNC' if variant == 'N' else ''), k, nh_in))

with open(out, 'w') as f:
    f.write('// GENERATED by tools/gen_capi_thunks.py from the preprocessed ppl_c.h -- do not edit\n')
    f.write('static const char* const HTYPE_NAMES[] = { %s, "Polyhedron" };   // last: the pool of NNC polyhedra\n' % ', '.join('"%s"' % h for h in htypes))
    f.write('static const int N_HTYPES = %d;\n' % (len(htypes) + 1))
    f.write('\n'.join(lines) + '\n')
    f.write('struct ThunkDesc { const char* name; int (*fn)(CallCtx&); int n_handles_in; };\n')
    f.write('static const ThunkDesc THUNKS[] = {\n')
    for name, k, nh in table:
        f.write('  { "%s", thunk_%d, %d },\n' % (name, k, nh))
    f.write('};\nstatic const int N_THUNKS = %d;\n' % len(table))
    names = set(n for n, a in protos)
    f.write('typedef int (*DeleteFn)(const void*);\nstatic const DeleteFn DELETE_FN[] = {\n')
    for h in htypes + ['Polyhedron']:
        f.write('  %s,\n' % ('(DeleteFn) ppl_delete_%s' % h if ('ppl_delete_' + h) in names else 'nullptr'))
    f.write('};\n')
    f.write('static const int N_PROTOTYPES = %d;\n' % len(protos))
    f.write('static const char* const UNDEFINED_ENTRY_POINTS[] = { %s nullptr };\n' % ''.join('"%s", ' % u for u in undefined))
print('prototypes %d thunks %d skipped %s handle types %d' % (len(protos), len(table), dict(skipped), len(htypes)))
