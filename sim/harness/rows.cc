// Harness `rows` (C16): lock-step replicas Sparse_Row / Dense_Row / plain
// vector model under operation histories (hinted access, erase while
// iterating, shifts, bulk combinations, sizes across the CO_Tree capacity
// steps), and Linear_Expression built DENSE and SPARSE from the same plan,
// including mixed-representation operations.  No clock or fault is involved:
// the simulator only chooses histories; the oracle is the reference model.
#include "kit/ppl_all.hh"
#include "kit/runner.hh"
#include <sstream>

// Access to the sub-range operations of Linear_Expression that the library's own clients use (they are private, but
// `template <typename T> friend class Expression_Hide_Last;` befriends every specialization, this one included).
namespace Parma_Polyhedra_Library {
struct Verif_Rows_Access_Tag;
template <>
class Expression_Hide_Last<Verif_Rows_Access_Tag> {
public:
  typedef Linear_Expression LE;
  static bool hacv(const LE& a, const LE& b, Variable f, Variable l) { return a.have_a_common_variable(b, f, l); }
  static bool all_zeroes(const LE& a, dimension_type s, dimension_type e) { return a.all_zeroes(s, e); }
  static dimension_type num_zeroes(const LE& a, dimension_type s, dimension_type e) { return a.num_zeroes(s, e); }
  static Coefficient gcd(const LE& a, dimension_type s, dimension_type e) { return a.gcd(s, e); }
  static dimension_type first_nonzero(const LE& a, dimension_type s, dimension_type e) { return a.first_nonzero(s, e); }
  static dimension_type last_nonzero(const LE& a, dimension_type s, dimension_type e) { return a.last_nonzero(s, e); }
  static dimension_type last_nonzero(const LE& a) { return a.last_nonzero(); }
  static void sp(Coefficient& r, const LE& a, const LE& b, dimension_type s, dimension_type e) { a.scalar_product_assign(r, b, s, e); }
  static int sps(const LE& a, const LE& b, dimension_type s, dimension_type e) { return a.scalar_product_sign(b, s, e); }
  static bool eq(const LE& a, const LE& b, dimension_type s, dimension_type e) { return a.is_equal_to(b, s, e); }
  static bool eqs(const LE& a, const LE& b, Coefficient_traits::const_reference c1, Coefficient_traits::const_reference c2, dimension_type s, dimension_type e) { return a.is_equal_to(b, c1, c2, s, e); }
  static bool aze(const LE& a, const Variables_Set& vs, dimension_type s, dimension_type e) { return a.all_zeroes_except(vs, s, e); }
  static void mul(LE& a, Coefficient_traits::const_reference c, dimension_type s, dimension_type e) { a.mul_assign(c, s, e); }
  static void neg(LE& a, dimension_type s, dimension_type e) { a.negate(s, e); }
  static void ediv(LE& a, Coefficient_traits::const_reference c, dimension_type s, dimension_type e) { a.exact_div_assign(c, s, e); }
  static void lc(LE& a, const LE& b, Coefficient_traits::const_reference c1, Coefficient_traits::const_reference c2, dimension_type s, dimension_type e) { a.linear_combine(b, c1, c2, s, e); }
  static void lclax(LE& a, const LE& b, Coefficient_traits::const_reference c1, Coefficient_traits::const_reference c2, dimension_type s, dimension_type e) { a.linear_combine_lax(b, c1, c2, s, e); }
  static void lci(LE& a, const LE& b, dimension_type i) { a.linear_combine(b, i); }
};
}  // namespace Parma_Polyhedra_Library


namespace PPL = Parma_Polyhedra_Library;
using PPL::Sparse_Row; using PPL::Dense_Row; using PPL::Coefficient; using PPL::dimension_type;
using PPL::Linear_Expression; using PPL::Variable; using PPL::Variables_Set;

namespace {

typedef std::vector<mpz_class> Model;

struct Triple { Sparse_Row s; Dense_Row d; Model m; };

Coefficient cf(long v) {
  if (v == 100) return Coefficient(1) << 40;
  if (v == 101) return -((Coefficient(1) << 70) + 3);
  return Coefficient(v % 10);
}

struct RowsHarness : Harness {
  const char* name() const override { return "rows"; }

  Plan generate(Rng& r, const std::string&, bool thorough) override {
    Plan p;
    bool expr = r.chance(35);
    p.domain = expr ? "Linear_Expression" : "Row";
    int pool = (int) r.range(1, 3);
    p.knobs["pool"] = pool;
    long maxsz = r.chance(30) ? r.range(1, 12) : r.chance(50) ? r.range(10, 70) : r.range(60, thorough ? 600 : 300);
    if (expr) maxsz = r.range(1, 40);
    p.knobs["size"] = maxsz;
    long n = r.range(10, thorough ? 220 : 90);
    static const char* row_ops[] = { "set", "set", "insert", "insert", "insert0", "insert_hint", "insert_hint", "find", "find_hint", "lower_bound", "lower_bound_hint",
      "reset", "reset", "reset_iter", "reset_range", "reset_after", "erase_iter", "swap", "swap_iter", "fast_swap", "delete_shift", "add_zeroes", "resize", "shrink",
      "lin_comb", "lin_comb", "lin_comb_range", "combine_first", "combine_second", "combine", "normalize", "copy_cap", "assign", "assign_cross", "insert_alias", "insert_alias", "m_swap", "from_dense", "to_dense",
      "dump_load", "burst", "burst", "clear", "iterate", "iterate" };
    static const char* expr_ops[] = { "e_setcoef", "e_setcoef", "e_setinh", "e_add", "e_sub", "e_mul", "e_addmul", "e_submul", "e_addvar", "e_neg", "e_lincomb",
      "e_swapdims", "e_shift", "e_remove", "e_permute", "e_setdim", "e_equal", "e_queries", "e_copyrep", "e_normalize", "e_dump_load", "e_iterate", "e_mixed_add", "e_mixed_lincomb", "e_ranges", "e_ranges" };
    for (long i = 0; i < n; ++i) {
      Op op;
      if (expr) op.kind = expr_ops[r.below(sizeof expr_ops / sizeof *expr_ops)];
      else op.kind = row_ops[r.below(sizeof row_ops / sizeof *row_ops)];
      op.a = { r.range(0, pool - 1), r.range(0, pool - 1), (long) r.below((u64) maxsz + 2), (long) r.below((u64) maxsz + 2),
               r.chance(5) ? 100 + (long) r.below(2) : r.range(-9, 9), r.chance(20) ? 0 : r.range(-4, 4), r.range(0, 40), (long) r.below(1000) };
      p.ops.push_back(op);
    }
    return p;
  }

  // ------------------------------------------------------------ rows
  static bool agree(Ctx& ctx, const Op& op, Triple& t, const char* what) {
    std::string k = "Row|" + op.kind + "|-";
    if (!t.s.OK()) { ctx.violation("C16", "ok", k + "|sparse", std::string("Sparse_Row::OK() false after ") + what); return false; }
    if (!t.d.OK()) { ctx.violation("C16", "ok", k + "|dense", std::string("Dense_Row::OK() false after ") + what); return false; }
    if (t.s.size() != t.m.size() || t.d.size() != t.m.size()) {
      ctx.violation("C16", "size", k, "sizes sparse=" + std::to_string(t.s.size()) + " dense=" + std::to_string(t.d.size()) + " model=" + std::to_string(t.m.size()));
      return false;
    }
    const Sparse_Row& cs = t.s;
    for (size_t i = 0; i < t.m.size(); ++i) {
      if (mpz_class(cs.get(i)) != t.m[i]) { ctx.violation("C16", "sparse-vs-model", k, "index " + std::to_string(i) + " sparse=" + mpz_class(cs.get(i)).get_str() + " model=" + t.m[i].get_str()); return false; }
      if (mpz_class(t.d[i]) != t.m[i]) { ctx.violation("C16", "dense-vs-model", k, "index " + std::to_string(i) + " dense=" + mpz_class(t.d[i]).get_str() + " model=" + t.m[i].get_str()); return false; }
    }
    // iteration: strictly increasing, values as in the model, nothing non-zero skipped
    dimension_type prev = 0; bool first = true; size_t nz_seen = 0, nz_model = 0;
    for (Sparse_Row::const_iterator i = cs.begin(), e = cs.end(); i != e; ++i) {
      if (!first && i.index() <= prev) { ctx.violation("C16", "iteration-order", k, "indexes not strictly increasing"); return false; }
      first = false; prev = i.index();
      if (i.index() >= t.m.size() || mpz_class(*i) != t.m[i.index()]) { ctx.violation("C16", "iteration-value", k, "iterator value differs from model at " + std::to_string(i.index())); return false; }
      if (*i != 0) ++nz_seen;
    }
    for (auto& v : t.m) if (v != 0) ++nz_model;
    if (nz_seen != nz_model) { ctx.violation("C16", "iteration-skips", k, "iteration saw " + std::to_string(nz_seen) + " non-zero entries, model has " + std::to_string(nz_model)); return false; }
    return true;
  }

  void run_rows(const Plan& plan, Ctx& ctx) {
    int pool = (int) std::max(1L, std::min(4L, plan.knob("pool", 1)));
    long maxsz = std::max(1L, std::min(1000L, plan.knob("size", 10)));
    std::vector<Triple> T((size_t) pool);
    for (auto& t : T) { t.s.resize((dimension_type) maxsz); t.d.resize((dimension_type) maxsz); t.m.assign((size_t) maxsz, 0); }
    long idx = -1;
    for (const Op& op : plan.ops) {
      ++idx;
      if (!ctx.viols.empty()) break;
      ctx.begin_op(idx, op);
      Triple& x = T[(size_t) op.mod(0, pool)];
      Triple& y = T[(size_t) op.mod(1, pool)];
      size_t n = x.m.size();
      const std::string& k = op.kind;
      std::string kl = "Row|" + k + "|-";
      Coefficient v = cf(op.arg(4)), w = cf(op.arg(5));
      mpz_class mv(v), mw(w);
      ctx.log(k);
      if (n == 0 && k != "resize" && k != "add_zeroes" && k != "clear" && k != "assign" && k != "m_swap" && k != "copy_cap") continue;
      dimension_type i = n ? (dimension_type) op.mod(2, (long) n) : 0, j = n ? (dimension_type) op.mod(3, (long) n) : 0;
      // a valid hint: an iterator obtained after the last mutation, anywhere in the row
      auto hint = [&]() { long h = op.mod(6, 5); return h == 0 ? x.s.begin() : h == 1 ? Sparse_Row::iterator(x.s.end()) : x.s.lower_bound((dimension_type) op.mod(7, (long) n)); };
      if (k == "set") { x.s[i] = v; x.d[i] = v; x.m[i] = mv; }
      else if (k == "insert") { Sparse_Row::iterator it = x.s.insert(i, v); x.d.insert(i, v); x.m[i] = mv;
        if (it == x.s.end() || it.index() != i || *it != v) ctx.violation("C16", "returned-iterator", kl, "insert(i, x) did not return an iterator to i"); }
      else if (k == "insert0") { Sparse_Row::iterator it = x.s.insert(i); x.d.insert(i);
        if (it == x.s.end() || it.index() != i || mpz_class(*it) != x.m[i]) ctx.violation("C16", "returned-iterator", kl, "insert(i) did not return an iterator to i with the old value"); }
      else if (k == "insert_hint") { Sparse_Row::iterator h = hint(); Sparse_Row::iterator it = (op.mod(6, 2) ? x.s.insert(h, i, v) : x.s.insert(h, i));
        if (op.mod(6, 2)) { x.d.insert(i, v); x.m[i] = mv; }
        if (it == x.s.end() || it.index() != i || mpz_class(*it) != x.m[i]) ctx.violation("C16", "returned-iterator", kl, "hinted insert returned a wrong iterator"); ctx.stat("rows.hinted"); }
      else if (k == "find" || k == "find_hint") { Sparse_Row::iterator it = (k == "find") ? x.s.find(i) : x.s.find(hint(), i);
        if (it == x.s.end()) { if (x.m[i] != 0) ctx.violation("C16", "find", kl, "find(i) == end() for a non-zero entry"); }
        else if (it.index() != i || mpz_class(*it) != x.m[i]) ctx.violation("C16", "find", kl, "find(i) returned a wrong element"); }
      else if (k == "lower_bound" || k == "lower_bound_hint") { Sparse_Row::iterator it = (k == "lower_bound") ? x.s.lower_bound(i) : x.s.lower_bound(hint(), i);
        // first stored element with index >= i: no non-zero entry may lie in [i, it.index())
        dimension_type lim = it == x.s.end() ? (dimension_type) n : it.index();
        if (lim < i) ctx.violation("C16", "lower_bound", kl, "lower_bound(i) returned an element before i");
        for (dimension_type q = i; q < lim && q < n; ++q) if (x.m[q] != 0) { ctx.violation("C16", "lower_bound", kl, "lower_bound(i) skipped a non-zero entry"); break; } }
      else if (k == "reset") { x.s.reset(i); x.d.reset(i); x.m[i] = 0; }
      else if (k == "reset_iter") { Sparse_Row::iterator it = x.s.lower_bound(i); if (it != x.s.end()) { dimension_type q = it.index(); Sparse_Row::iterator nx = x.s.reset(it); x.d.reset(q); x.m[q] = 0;
          if (nx != x.s.end() && nx.index() <= q) ctx.violation("C16", "returned-iterator", kl, "reset(it) returned an iterator not after the erased index"); } }
      else if (k == "reset_range") { dimension_type a = std::min(i, j), b = std::max(i, j); Sparse_Row::iterator f = x.s.lower_bound(a); Sparse_Row::iterator l = x.s.lower_bound(f, b);
        x.s.reset(f, l); for (dimension_type q = a; q < b; ++q) { x.d.reset(q); x.m[q] = 0; } }
      else if (k == "reset_after") { x.s.reset_after(i); for (dimension_type q = i; q < n; ++q) { x.d.reset(q); x.m[q] = 0; } }
      else if (k == "erase_iter") { long md = 2 + op.mod(6, 3), cnt = 0;
        for (Sparse_Row::iterator it = x.s.begin(); it != x.s.end(); ) { if ((long) (it.index() % (dimension_type) md) == 0) { dimension_type q = it.index(); it = x.s.reset(it); x.d.reset(q); x.m[q] = 0; ++cnt; } else ++it; }
        ctx.stat("rows.erased_while_iterating", cnt); }
      else if (k == "swap") { x.s.swap_coefficients(i, j); x.d.swap_coefficients(i, j); std::swap(x.m[i], x.m[j]); }
      else if (k == "swap_iter") { Sparse_Row::iterator a = x.s.insert(i); Sparse_Row::iterator b = x.s.insert(j); a = x.s.find(i); x.s.swap_coefficients(a, b); x.d.swap_coefficients(i, j); std::swap(x.m[i], x.m[j]); }
      else if (k == "fast_swap") { /* precondition: itr == lower_bound(i) */ Sparse_Row::iterator b = x.s.lower_bound(i); if (b == x.s.end()) continue; dimension_type q = b.index(); x.s.fast_swap(i, b); x.d.swap_coefficients(i, q); std::swap(x.m[i], x.m[q]); }
      else if (k == "delete_shift") { x.s.delete_element_and_shift(i); x.m.erase(x.m.begin() + (long) i); Dense_Row nd((dimension_type) x.m.size()); for (size_t q = 0; q < x.m.size(); ++q) nd[q] = Coefficient(x.m[q]); x.d.m_swap(nd); }
      else if (k == "add_zeroes") { dimension_type c = (dimension_type) op.mod(6, 9), at = (dimension_type) op.mod(2, (long) n + 1); if (n + c > 1200) continue;
        x.s.add_zeroes_and_shift(c, at); x.d.add_zeroes_and_shift(c, at); x.m.insert(x.m.begin() + (long) at, c, mpz_class(0)); }
      else if (k == "resize") { dimension_type nn = (dimension_type) op.mod(2, maxsz + 40); x.s.resize(nn); x.d.resize(nn); x.m.resize(nn); }
      else if (k == "shrink") { x.s.shrink(i); x.d.shrink(i); x.m.resize(i); }
      else if (k == "clear") { x.s.clear(); x.d.clear(); for (auto& e : x.m) e = 0; }
      else if (k == "lin_comb") { if (&x == &y || y.m.size() != n || v == 0 || w == 0) continue; x.s.linear_combine(y.s, v, w); x.d.linear_combine(y.d, v, w);
        for (size_t q = 0; q < n; ++q) x.m[q] = x.m[q] * mv + y.m[q] * mw; }
      else if (k == "lin_comb_range") { if (&x == &y || y.m.size() != n || v == 0 || w == 0) continue; dimension_type a = std::min(i, j), b = std::max(i, j);
        x.s.linear_combine(y.s, v, w, a, b); x.d.linear_combine(y.d, v, w, a, b); for (size_t q = a; q < b; ++q) x.m[q] = x.m[q] * mv + y.m[q] * mw; }
      else if (k == "combine_first") { if (&x == &y || y.m.size() != n) continue;
        auto f = [](Coefficient&) {}; auto g = [](Coefficient& c1, const Coefficient& c2) { c1 *= (c2 + 1); };
        x.s.combine_needs_first(y.s, f, g); x.d.combine_needs_first(y.d, f, g); for (size_t q = 0; q < n; ++q) x.m[q] *= (y.m[q] + 1); }
      else if (k == "combine_second") { if (&x == &y || y.m.size() != n) continue; Coefficient kk = v;
        auto g = [kk](Coefficient& c1, const Coefficient& c2) { c1 += c2 * kk; }; auto h = [kk](Coefficient& c1, const Coefficient& c2) { c1 = c2 * kk; };
        x.s.combine_needs_second(y.s, g, h); x.d.combine_needs_second(y.d, g, h); for (size_t q = 0; q < n; ++q) x.m[q] += y.m[q] * mv; }
      else if (k == "combine") { if (&x == &y || y.m.size() != n) continue;
        auto f = [](Coefficient& c1) { c1 *= 2; }; auto g = [](Coefficient& c1, const Coefficient& c2) { c1 *= 2; c1 += c2; }; auto h = [](Coefficient& c1, const Coefficient& c2) { c1 = c2; };
        x.s.combine(y.s, f, g, h); x.d.combine(y.d, f, g, h); for (size_t q = 0; q < n; ++q) x.m[q] = 2 * x.m[q] + y.m[q]; }
      else if (k == "normalize") { x.s.normalize(); x.d.normalize(); mpz_class g = 0; for (auto& e : x.m) { mpz_class a = abs(e); mpz_gcd(g.get_mpz_t(), g.get_mpz_t(), a.get_mpz_t()); }
        if (g > 1) for (auto& e : x.m) e /= g; }
      else if (k == "copy_cap") { Sparse_Row c(x.s, (dimension_type) (n + (size_t) op.mod(6, 9))); Dense_Row dc(x.d, (dimension_type) (n + (size_t) op.mod(6, 9))); y.s.m_swap(c); y.d.m_swap(dc); y.m = x.m; }
      else if (k == "assign") { y.s = x.s; y.d = x.d; y.m = x.m; }
      // cross-representation assignment onto USED destinations (stale coefficients, recycled storage)
      else if (k == "assign_cross") { if (&x == &y) continue; y.d = x.s; y.s = x.d; y.m = x.m; ctx.stat("rows.cross_assign_onto_used"); }
      // the value to insert is a reference to a coefficient stored in the same row
      else if (k == "insert_alias") { const Sparse_Row& cs = x.s; const Coefficient& ref = cs.get(i); mpz_class val = x.m[i];
        Sparse_Row::iterator it = op.mod(6, 2) ? x.s.insert(hint(), j, ref) : x.s.insert(j, ref);
        Coefficient dv = x.d[i]; x.d.insert(j, dv); x.m[j] = val; ctx.stat("rows.self_referencing_insert");
        if (it == x.s.end() || it.index() != j || mpz_class(*it) != val) ctx.violation("C16", "returned-iterator", kl, "insert(j, row.get(i)) did not return an iterator to j holding the value of i"); }
      else if (k == "m_swap") { x.s.m_swap(y.s); x.d.m_swap(y.d); x.m.swap(y.m); }
      else if (k == "from_dense") { Sparse_Row c(x.d); x.s.m_swap(c); if (op.mod(6, 2)) { x.s = x.d; } }
      else if (k == "to_dense") { Dense_Row c(x.s); x.d.m_swap(c); if (op.mod(6, 2)) { x.d = x.s; } }
      else if (k == "dump_load") { std::ostringstream o; x.s.ascii_dump(o); std::istringstream in(o.str()); Sparse_Row z((dimension_type) op.mod(6, 5));
        if (!z.ascii_load(in)) { ctx.violation("C16", "dump-load", kl, "Sparse_Row::ascii_load failed on its own dump"); continue; }
        std::ostringstream o2; z.ascii_dump(o2); if (o2.str() != o.str()) ctx.violation("C16", "dump-load", kl, "Sparse_Row re-dump differs");
        x.s.m_swap(z); }
      else if (k == "burst") { dimension_type start = i; long stride = 1 + op.mod(6, 3), cnt = 1 + op.mod(7, 70);
        for (long q = 0; q < cnt; ++q) { dimension_type p = start + (dimension_type) (q * stride); if (p >= n) break; if (op.mod(5, 2)) { x.s.insert(p, v); x.d[p] = v; x.m[p] = mv; } else { x.s.reset(p); x.d.reset(p); x.m[p] = 0; } }
        ctx.stat("rows.bursts"); }
      else if (k == "iterate") { /* checked by agree() */ }
      else continue;
      ++ctx.ops_done;
      if (!agree(ctx, op, x, k.c_str())) break;
      if (&x != &y && !agree(ctx, op, y, k.c_str())) break;
      // capacity steps of the tree as an abstract state
      { std::ostringstream o; x.s.ascii_dump(o); std::string d = o.str(); size_t p = d.find("reserved_size"); ctx.state(k + "|" + (p == std::string::npos ? std::string("-") : d.substr(p, 22))); }
      ctx.log((u64) x.m.size());
    }
    ctx.nontrivial = ctx.ops_done >= 5;
  }

  // ------------------------------------------------------------ expressions
  struct EPair { Linear_Expression d, s; EPair() : d(PPL::DENSE), s(PPL::SPARSE) {} };

  static bool eagree(Ctx& ctx, const Op& op, EPair& p) {
    std::string k = "Linear_Expression|" + op.kind + "|-";
    if (!p.d.OK() || !p.s.OK()) { ctx.violation("C16", "ok", k, "Linear_Expression::OK() false"); return false; }
    if (p.d.space_dimension() != p.s.space_dimension()) { ctx.violation("C16", "expr-dim", k, "space dimensions differ: dense " + std::to_string(p.d.space_dimension()) + " sparse " + std::to_string(p.s.space_dimension())); return false; }
    if (p.d.inhomogeneous_term() != p.s.inhomogeneous_term()) { ctx.violation("C16", "expr-coeff", k, "inhomogeneous terms differ"); return false; }
    for (dimension_type i = 0; i < p.d.space_dimension(); ++i)
      if (p.d.coefficient(Variable(i)) != p.s.coefficient(Variable(i))) { ctx.violation("C16", "expr-coeff", k, "coefficient of variable " + std::to_string(i) + " differs between DENSE and SPARSE"); return false; }
    if (!p.d.is_equal_to(p.s) || !p.s.is_equal_to(p.d)) { ctx.violation("C16", "expr-equal", k, "is_equal_to() false across representations although all coefficients agree"); return false; }
    if (p.d.is_zero() != p.s.is_zero() || p.d.all_homogeneous_terms_are_zero() != p.s.all_homogeneous_terms_are_zero()) { ctx.violation("C16", "expr-query", k, "is_zero/all_homogeneous_terms_are_zero differ"); return false; }
    // iteration yields the same non-zero coefficients
    std::vector<std::pair<dimension_type, mpz_class> > a, b;
    for (Linear_Expression::const_iterator i = p.d.begin(); i != p.d.end(); ++i) if (*i != 0) a.push_back({ i.variable().id(), mpz_class(*i) });
    for (Linear_Expression::const_iterator i = p.s.begin(); i != p.s.end(); ++i) if (*i != 0) b.push_back({ i.variable().id(), mpz_class(*i) });
    if (a != b) { ctx.violation("C16", "expr-iteration", k, "iteration results differ between DENSE and SPARSE"); return false; }
    return true;
  }

  void run_exprs(const Plan& plan, Ctx& ctx) {
    int pool = (int) std::max(1L, std::min(4L, plan.knob("pool", 1)));
    long maxsz = std::max(1L, std::min(60L, plan.knob("size", 6)));
    std::vector<EPair> E((size_t) pool);
    long idx = -1;
    for (const Op& op : plan.ops) {
      ++idx;
      if (!ctx.viols.empty()) break;
      ctx.begin_op(idx, op);
      EPair& x = E[(size_t) op.mod(0, pool)];
      EPair& y = E[(size_t) op.mod(1, pool)];
      const std::string& k = op.kind;
      std::string kl = "Linear_Expression|" + k + "|-";
      Coefficient v = cf(op.arg(4)), w = cf(op.arg(5));
      dimension_type dim = x.d.space_dimension();
      Variable vi((dimension_type) op.mod(2, maxsz)), vj((dimension_type) op.mod(3, maxsz));
      ctx.log(k);
      bool distinct = &x != &y;
      if (k == "e_setcoef") { if (vi.space_dimension() > dim) { x.d.set_space_dimension(vi.space_dimension()); x.s.set_space_dimension(vi.space_dimension()); } x.d.set_coefficient(vi, v); x.s.set_coefficient(vi, v); }
      else if (k == "e_setinh") { x.d.set_inhomogeneous_term(v); x.s.set_inhomogeneous_term(v); }
      else if (!distinct && (k == "e_add" || k == "e_sub" || k == "e_addmul" || k == "e_submul")) {
        // aliased operands: e op= e must equal e op= copy(e), in both representations
        Linear_Expression cd(x.d), cs(x.s), rd(x.d), rs(x.s);
        if (k == "e_add") { rd += cd; rs += cs; x.d += x.d; x.s += x.s; }
        else if (k == "e_sub") { rd -= cd; rs -= cs; x.d -= x.d; x.s -= x.s; }
        else if (k == "e_addmul") { PPL::add_mul_assign(rd, v, cd); PPL::add_mul_assign(rs, v, cs); PPL::add_mul_assign(x.d, v, x.d); PPL::add_mul_assign(x.s, v, x.s); }
        else { PPL::sub_mul_assign(rd, v, cd); PPL::sub_mul_assign(rs, v, cs); PPL::sub_mul_assign(x.d, v, x.d); PPL::sub_mul_assign(x.s, v, x.s); }
        ctx.stat("rows.aliased_expression_ops");
        if (!x.d.is_equal_to(rd)) ctx.violation("C16", "expr-alias", "Expr|" + k + "|dense", "e " + k + " e differs from e " + k + " copy(e) (DENSE)");
        if (!x.s.is_equal_to(rs)) ctx.violation("C16", "expr-alias", "Expr|" + k + "|sparse", "e " + k + " e differs from e " + k + " copy(e) (SPARSE)");
      }
      else if (k == "e_add") { if (!distinct) continue; x.d += y.d; x.s += y.s; }
      else if (k == "e_sub") { if (!distinct) continue; x.d -= y.d; x.s -= y.s; }
      else if (k == "e_mul") { x.d *= v; x.s *= v; }
      else if (k == "e_addmul") { if (!distinct) continue; PPL::add_mul_assign(x.d, v, y.d); PPL::add_mul_assign(x.s, v, y.s); }
      else if (k == "e_submul") { if (!distinct) continue; PPL::sub_mul_assign(x.d, v, y.d); PPL::sub_mul_assign(x.s, v, y.s); }
      else if (k == "e_addvar") { PPL::add_mul_assign(x.d, v, vi); PPL::add_mul_assign(x.s, v, vi); }
      else if (k == "e_neg") { PPL::neg_assign(x.d); PPL::neg_assign(x.s); }
      else if (k == "e_lincomb") { if (!distinct || v == 0 || w == 0) continue; x.d.linear_combine(y.d, v, w); x.s.linear_combine(y.s, v, w); }
      else if (k == "e_swapdims") { if (vi.space_dimension() > dim || vj.space_dimension() > dim) continue; x.d.swap_space_dimensions(vi, vj); x.s.swap_space_dimensions(vi, vj); }
      else if (k == "e_shift") { if (vi.space_dimension() > dim + 1 && vi.id() > dim) continue; dimension_type c = (dimension_type) op.mod(6, 4); if (dim + c > 80 || vi.id() > dim) continue; x.d.shift_space_dimensions(vi, c); x.s.shift_space_dimensions(vi, c); }
      else if (k == "e_remove") { Variables_Set vs; long mask = op.arg(7); for (dimension_type q = 0; q < dim && q < 10; ++q) if (mask & (1L << q)) vs.insert(Variable(q)); x.d.remove_space_dimensions(vs); x.s.remove_space_dimensions(vs); }
      else if (k == "e_permute") { if (dim < 2) continue; std::vector<Variable> cyc; long len = 2 + op.mod(6, 3); dimension_type st = (dimension_type) op.mod(2, (long) dim);
        std::set<dimension_type> used; for (long q = 0; q < len; ++q) { dimension_type id = (st + (dimension_type) q * (1 + (dimension_type) op.mod(7, 3))) % dim; if (used.insert(id).second) cyc.push_back(Variable(id)); }
        if (cyc.size() < 2) continue; x.d.permute_space_dimensions(cyc); x.s.permute_space_dimensions(cyc); }
      else if (k == "e_setdim") { dimension_type nd = (dimension_type) op.mod(2, maxsz + 1); x.d.set_space_dimension(nd); x.s.set_space_dimension(nd); }
      else if (k == "e_equal") { if (x.d.is_equal_to(y.d) != x.s.is_equal_to(y.s) || x.d.is_equal_to(y.s) != x.s.is_equal_to(y.d)) ctx.violation("C16", "expr-equal", kl, "is_equal_to answers depend on the representation"); }
      else if (k == "e_queries") { Variables_Set vs; long mask = op.arg(7); for (dimension_type q = 0; q < dim && q < 10; ++q) if (mask & (1L << q)) vs.insert(Variable(q));
        if (x.d.all_zeroes(vs) != x.s.all_zeroes(vs)) ctx.violation("C16", "expr-query", kl, "all_zeroes(vars) depends on the representation");
        if (vi.space_dimension() <= dim) { Linear_Expression::const_iterator a = x.d.lower_bound(vi), b = x.s.lower_bound(vi);
          // dense lower_bound may stop at a zero entry; compare the first NON-ZERO entry at or after vi
          while (a != x.d.end() && *a == 0) ++a; while (b != x.s.end() && *b == 0) ++b;
          bool ae = a == x.d.end(), be = b == x.s.end();
          if (ae != be || (!ae && a.variable().id() != b.variable().id())) ctx.violation("C16", "expr-query", kl, "lower_bound(v) depends on the representation"); } }
      else if (k == "e_copyrep") { Linear_Expression a(x.s, PPL::DENSE), b(x.d, PPL::SPARSE); y.d = a; y.s = b;
        if (y.d.representation() != PPL::DENSE) y.d.set_representation(PPL::DENSE); if (y.s.representation() != PPL::SPARSE) y.s.set_representation(PPL::SPARSE); }
      else if (k == "e_normalize") { x.d.normalize(); x.s.normalize(); }
      else if (k == "e_dump_load") { std::ostringstream o; x.s.ascii_dump(o); std::istringstream in(o.str()); Linear_Expression z(op.mod(6, 2) ? PPL::DENSE : PPL::SPARSE);
        if (!z.ascii_load(in)) { ctx.violation("C16", "dump-load", kl, "Linear_Expression::ascii_load failed on its own dump"); continue; }
        if (!z.is_equal_to(x.s)) ctx.violation("C16", "dump-load", kl, "loaded expression differs"); }
      else if (k == "e_iterate") { }
      else if (k == "e_mixed_add") { if (!distinct) continue; x.d += y.s; x.s += y.d; ctx.stat("rows.mixed_representation_ops"); }
      else if (k == "e_mixed_lincomb") { if (!distinct || v == 0 || w == 0) continue; x.d.linear_combine(y.s, v, w); x.s.linear_combine(y.d, v, w); ctx.stat("rows.mixed_representation_ops"); }
      else if (k == "e_ranges") {
        // the sub-range operations (indices: 0 = inhomogeneous term, i + 1 = Variable(i)) against a plain vector model,
        // on every combination of representations
        typedef PPL::Expression_Hide_Last<PPL::Verif_Rows_Access_Tag> A;
        auto evec = [](const Linear_Expression& e) { std::vector<mpz_class> r(e.space_dimension() + 1); r[0] = mpz_class(e.inhomogeneous_term());
          for (dimension_type i = 0; i < e.space_dimension(); ++i) r[i + 1] = mpz_class(e.coefficient(Variable(i))); return r; };
        std::vector<mpz_class> mx = evec(x.d), my = evec(y.d);
        dimension_type lim = std::min(mx.size(), my.size());
        dimension_type s0 = (dimension_type) op.mod(2, (long) lim + 1), e0 = (dimension_type) op.mod(3, (long) lim + 1);
        if (s0 > e0) std::swap(s0, e0);
        long sub = op.mod(6, 13);
        std::string rl = "Linear_Expression|e_ranges|" + std::to_string(sub);
        ctx.stat("rows.range_ops");
        auto bad = [&](const char* what) { ctx.violation("C16", "expr-range", rl, std::string(what) + " on [" + std::to_string(s0) + "," + std::to_string(e0) + ") disagrees with the coefficient-wise definition or between representations"); };
        if (sub == 0) {
          dimension_type f = std::min(s0, lim - 1), l = std::min(e0, lim - 1);
          bool ref = false; for (dimension_type i = f; i < l; ++i) if (mx[i + 1] != 0 && my[i + 1] != 0) ref = true;
          if (A::hacv(x.d, y.d, Variable(f), Variable(l)) != ref || A::hacv(x.s, y.s, Variable(f), Variable(l)) != ref
              || A::hacv(x.d, y.s, Variable(f), Variable(l)) != ref || A::hacv(x.s, y.d, Variable(f), Variable(l)) != ref) bad("have_a_common_variable");
        }
        else if (sub == 1) {
          bool az = true; dimension_type nz = 0; mpz_class g = 0;
          for (dimension_type i = s0; i < e0; ++i) { if (mx[i] != 0) az = false; else ++nz; g = gcd(g, mx[i]); }
          if (A::all_zeroes(x.d, s0, e0) != az || A::all_zeroes(x.s, s0, e0) != az) bad("all_zeroes");
          if (A::num_zeroes(x.d, s0, e0) != nz || A::num_zeroes(x.s, s0, e0) != nz) bad("num_zeroes");
          if (mpz_class(A::gcd(x.d, s0, e0)) != g || mpz_class(A::gcd(x.s, s0, e0)) != g) bad("gcd");
        }
        else if (sub == 2) {
          dimension_type fn = e0, ln = e0;
          for (dimension_type i = s0; i < e0; ++i) if (mx[i] != 0) { fn = i; break; }
          for (dimension_type i = e0; i-- > s0; ) if (mx[i] != 0) { ln = i; break; }
          if (A::first_nonzero(x.d, s0, e0) != fn || A::first_nonzero(x.s, s0, e0) != fn) bad("first_nonzero");
          if (A::last_nonzero(x.d, s0, e0) != ln || A::last_nonzero(x.s, s0, e0) != ln) bad("last_nonzero");
          dimension_type la = 0; for (dimension_type i = mx.size(); i-- > 0; ) if (mx[i] != 0) { la = i; break; }
          if (A::last_nonzero(x.d) != la || A::last_nonzero(x.s) != la) bad("last_nonzero()");
        }
        else if (sub == 3) {
          mpz_class ref = 0; for (dimension_type i = s0; i < e0; ++i) ref += mx[i] * my[i];
          int sg = sgn(ref);
          const Linear_Expression* xs[2] = { &x.d, &x.s }; const Linear_Expression* ys[2] = { &y.d, &y.s };
          for (int a = 0; a < 2; ++a) for (int b = 0; b < 2; ++b) {
            Coefficient r; A::sp(r, *xs[a], *ys[b], s0, e0);
            if (mpz_class(r) != ref) bad("scalar_product_assign");
            int q = A::sps(*xs[a], *ys[b], s0, e0);
            if ((q > 0) - (q < 0) != sg) bad("scalar_product_sign");
          }
        }
        else if (sub == 4 || sub == 5) {
          Coefficient c1 = (sub == 4) ? Coefficient(1) : v, c2 = (sub == 4) ? Coefficient(1) : w;
          bool ref = true; for (dimension_type i = s0; i < e0; ++i) if (mx[i] * mpz_class(c1) != my[i] * mpz_class(c2)) ref = false;
          const Linear_Expression* xs[2] = { &x.d, &x.s }; const Linear_Expression* ys[2] = { &y.d, &y.s };
          for (int a = 0; a < 2; ++a) for (int b = 0; b < 2; ++b) {
            bool got = (sub == 4) ? A::eq(*xs[a], *ys[b], s0, e0) : A::eqs(*xs[a], *ys[b], c1, c2, s0, e0);
            if (got != ref) bad(sub == 4 ? "is_equal_to(y, start, end)" : "is_equal_to(y, c1, c2, start, end)");
          }
        }
        else if (sub == 6) {
          if (s0 == e0) continue;
          Variables_Set vs; long mask = op.arg(7); for (dimension_type q = 0; q < 10; ++q) if (mask & (1L << q)) vs.insert(Variable(q));
          bool ref = true; for (dimension_type i = s0; i < e0; ++i) if (mx[i] != 0 && (i == 0 || vs.count(i - 1) == 0)) ref = false;
          if (A::aze(x.d, vs, s0, e0) != ref || A::aze(x.s, vs, s0, e0) != ref) bad("all_zeroes_except");
        }
        else {
          // mutators: the same call on both replicas, then the model
          std::vector<mpz_class> want = mx;
          bool mixed = (op.arg(7) & 1) != 0;
          if (sub == 7) { A::mul(x.d, v, s0, e0); A::mul(x.s, v, s0, e0); for (dimension_type i = s0; i < e0; ++i) want[i] *= mpz_class(v); }
          else if (sub == 8) { A::neg(x.d, s0, e0); A::neg(x.s, s0, e0); for (dimension_type i = s0; i < e0; ++i) want[i] = -want[i]; }
          else if (sub == 9) { mpz_class g = 0; for (dimension_type i = s0; i < e0; ++i) g = gcd(g, mx[i]); if (g == 0) continue; if (v < 0) g = -g;
            Coefficient gc(g); A::ediv(x.d, gc, s0, e0); A::ediv(x.s, gc, s0, e0); for (dimension_type i = s0; i < e0; ++i) want[i] /= g; }
          else if (sub == 10 || sub == 11) {
            if (!distinct) continue;
            if (sub == 10 && (v == 0 || w == 0)) continue;
            if (sub == 10) { A::lc(x.d, mixed ? y.s : y.d, v, w, s0, e0); A::lc(x.s, mixed ? y.d : y.s, v, w, s0, e0); }
            else { A::lclax(x.d, mixed ? y.s : y.d, v, w, s0, e0); A::lclax(x.s, mixed ? y.d : y.s, v, w, s0, e0); }
            if (mixed) ctx.stat("rows.mixed_representation_ops");
            for (dimension_type i = s0; i < e0; ++i) want[i] = mpz_class(v) * mx[i] + mpz_class(w) * my[i];
          }
          else {
            if (!distinct || mx.size() != my.size()) continue;
            dimension_type i = std::min(s0, lim - 1);
            if (mx[i] == 0 || my[i] == 0) continue;
            A::lci(x.d, mixed ? y.s : y.d, i); A::lci(x.s, mixed ? y.d : y.s, i);
            if (mixed) ctx.stat("rows.mixed_representation_ops");
            std::vector<mpz_class> got = evec(x.d);
            // x := a*x + b*y with x[i] = 0, a != 0: every 2x2 minor with column i of (got, y) equals that of (a*x, y)
            if (got[i] != 0) bad("linear_combine(y, i): coefficient i not cancelled");
            want = got;
          }
          if (evec(x.d) != want) bad("range mutator (dense replica vs model)");
        }
      }
      else continue;
      ++ctx.ops_done;
      if (!eagree(ctx, op, x) || (distinct && !eagree(ctx, op, y))) break;
      ctx.state(k + "|" + std::to_string(std::min<dimension_type>(x.d.space_dimension(), 12)));
      ctx.log((u64) x.d.space_dimension());
    }
    ctx.nontrivial = ctx.ops_done >= 5;
  }

  void run(const Plan& plan, Ctx& ctx) override {
    if (plan.domain == "Linear_Expression") run_exprs(plan, ctx); else run_rows(plan, ctx);
  }
};
}  // namespace

int main(int argc, char** argv) { RowsHarness h; return kit_main(argc, argv, h); }
