// Harness `widen` (C08): adversarial ascending chains.  Each step grows the
// current element (upper bound with a plan-chosen perturbation) and widens:
// x_{i+1} = widen(y_{i+1}, x_i).  Judged per step: superset, representation
// independence (canonical twins of both arguments), strictly decreasing
// certificate on every non-stationary step, the token protocol, and that
// limited / bounded extrapolations lie between the larger argument and the
// plain widening and keep every supplied constraint the larger argument satisfies.
#include "obj_ops.hh"
#include "multi.hh"

namespace obj {
typedef PPL::BD_Shape<mpq_class> BDQ;
typedef PPL::Octagonal_Shape<mpq_class> OSQ;
typedef PPL::Rational_Box RBox;
template <> struct Dom<PPL::C_Polyhedron> { static constexpr Kind kind = POLY; static constexpr bool nnc = false, oct = false; static const char* name() { return "C_Polyhedron"; } };
template <> struct Dom<PPL::NNC_Polyhedron> { static constexpr Kind kind = POLY; static constexpr bool nnc = true, oct = false; static const char* name() { return "NNC_Polyhedron"; } };
template <> struct Dom<PPL::Grid> { static constexpr Kind kind = GRID; static constexpr bool nnc = false, oct = false; static const char* name() { return "Grid"; } };
template <> struct Dom<BDQ> { static constexpr Kind kind = SHAPE; static constexpr bool nnc = false, oct = false; static const char* name() { return "BD_Shape_mpq"; } };
template <> struct Dom<OSQ> { static constexpr Kind kind = SHAPE; static constexpr bool nnc = false, oct = true; static const char* name() { return "Octagonal_Shape_mpq"; } };
template <> struct Dom<RBox> { static constexpr Kind kind = BOX; static constexpr bool nnc = true, oct = false; static const char* name() { return "Rational_Box"; } };

// variants per domain: name, plain widening, limited form
template <class D> struct WOps;   // count(), name(v), plain(v, y, x, tp), limited(v, y, x, cs, tp) (returns false if there is none), cert_decreases(v, old, new)

template <class P> struct PolyW {
  static int count() { return 2; }
  static const char* name(int v) { return v ? "BHRZ03" : "H79"; }
  static void plain(int v, P& y, const P& x, unsigned* tp) { if (v) y.BHRZ03_widening_assign(x, tp); else y.H79_widening_assign(x, tp); }
  static bool limited(int v, int form, P& y, const P& x, const Constraint_System& cs, unsigned* tp) {
    if (form == 1) { if (v) y.limited_BHRZ03_extrapolation_assign(x, cs, tp); else y.limited_H79_extrapolation_assign(x, cs, tp); }
    else { if (v) y.bounded_BHRZ03_extrapolation_assign(x, cs, tp); else y.bounded_H79_extrapolation_assign(x, cs, tp); }
    return true;
  }
  // 1: strictly decreased, 0: not, -1: no certificate available
  static int cert(int v, const P& older, const P& newer) {
    if (v) { PPL::BHRZ03_Certificate c(older); return c.compare(newer) == 1 ? 1 : 0; }
    PPL::H79_Certificate c(older); return c.compare(newer) == 1 ? 1 : 0;
  }
  // the library's certificates of two objects denoting the same set must compare equal
  static bool cert_same(const P& a, const P& b) {
    PPL::BHRZ03_Certificate c1(a), c2(b); PPL::H79_Certificate h1(a), h2(b);
    return c1.compare(c2) == 0 && h1.compare(h2) == 0 && c1.compare(b) == 0 && h1.compare(b) == 0;
  }
  // compare(ph) is documented as the comparison with the certificate for ph: both overloads must agree (smaller contained in larger)
  static bool cert_overloads_agree(const P& smaller, const P& larger) {
    PPL::BHRZ03_Certificate c1(smaller), c2(larger); PPL::H79_Certificate h1(smaller), h2(larger);
    return c1.compare(larger) == c1.compare(c2) && h1.compare(larger) == h1.compare(h2) && c2.compare(c1) == -c1.compare(c2) && h2.compare(h1) == -h1.compare(h2);
  }
};
template <> struct WOps<PPL::C_Polyhedron> : PolyW<PPL::C_Polyhedron> {};
template <> struct WOps<PPL::NNC_Polyhedron> : PolyW<PPL::NNC_Polyhedron> {};
template <> struct WOps<PPL::Grid> {
  typedef PPL::Grid P;
  static int count() { return 2; }
  static const char* name(int v) { return v ? "generator" : "congruence"; }
  static void plain(int v, P& y, const P& x, unsigned* tp) { if (v) y.generator_widening_assign(x, tp); else y.congruence_widening_assign(x, tp); }
  static bool limited(int v, int form, P& y, const P& x, const Constraint_System&, unsigned* tp) { (void) v; (void) form; (void) y; (void) x; (void) tp; return false; }
  static int cert(int, const P& older, const P& newer) { PPL::Grid_Certificate c(older); return c.compare(newer) == 1 ? 1 : 0; }
  static bool cert_same(const P& a, const P& b) { PPL::Grid_Certificate c1(a), c2(b); return c1.compare(c2) == 0 && c1.compare(b) == 0 && c2.compare(a) == 0; }
  static bool cert_overloads_agree(const P& smaller, const P& larger) { PPL::Grid_Certificate c1(smaller), c2(larger); return c1.compare(larger) == c1.compare(c2) && c2.compare(c1) == -c1.compare(c2); }
};
template <class P> struct ShapeW {
  static int count() { return Dom<P>::oct ? 2 : 3; }
  static const char* name(int v) { return v == 0 ? "BHMZ05" : v == 1 ? "CC76" : "H79"; }
  static void plain(int v, P& y, const P& x, unsigned* tp) {
    if (v == 0) y.BHMZ05_widening_assign(x, tp); else if (v == 1) y.CC76_extrapolation_assign(x, tp);
    else { if constexpr (!Dom<P>::oct) y.H79_widening_assign(x, tp); }
  }
  static bool limited(int v, int form, P& y, const P& x, const Constraint_System& cs, unsigned* tp) {
    if (form != 1) return false;
    if (v == 0) y.limited_BHMZ05_extrapolation_assign(x, cs, tp); else if (v == 1) y.limited_CC76_extrapolation_assign(x, cs, tp);
    else { if constexpr (!Dom<P>::oct) y.limited_H79_extrapolation_assign(x, cs, tp); else return false; }
    return true;
  }
  // harness-side certificate for the widenings proper (BHMZ05, H79): affine dimension up, or
  // the number of non-redundant constraints strictly down; CC76 is an extrapolation: no certificate
  static int cert(int v, const P& older, const P& newer) {
    if (v == 1) return -1;
    P a(older), b(newer);
    if (b.affine_dimension() > a.affine_dimension()) return 1;
    size_t na = 0, nb = 0;
    Constraint_System ca = a.minimized_constraints(), cb = b.minimized_constraints();
    for (auto i = ca.begin(); i != ca.end(); ++i) ++na;
    for (auto i = cb.begin(); i != cb.end(); ++i) ++nb;
    return nb < na ? 1 : 0;
  }
  static bool cert_same(const P&, const P&) { return true; }
  static bool cert_overloads_agree(const P&, const P&) { return true; }
};
template <> struct WOps<BDQ> : ShapeW<BDQ> {};
template <> struct WOps<OSQ> : ShapeW<OSQ> {};
template <> struct WOps<RBox> {
  typedef RBox P;
  static int count() { return 1; }
  static const char* name(int) { return "CC76"; }
  static void plain(int, P& y, const P& x, unsigned* tp) { y.CC76_widening_assign(x, tp); }
  static bool limited(int, int form, P& y, const P& x, const Constraint_System& cs, unsigned* tp) { if (form != 1) return false; y.limited_CC76_extrapolation_assign(x, cs, tp); return true; }
  static int cert(int, const P&, const P&) { return -1; }
  static bool cert_same(const P&, const P&) { return true; }
  static bool cert_overloads_agree(const P&, const P&) { return true; }
};

template <class D> struct WidenHarness : Harness {
  typedef ObjHarness<D> OH;
  const char* name() const override { return "widen"; }
  int child_seconds() const override { return 60; }

  Plan generate(Rng& r, const std::string&, bool thorough) override {
    Plan p; p.domain = Dom<D>::name();
    int dim = (int) r.range(1, thorough ? 4 : 3);
    // polyhedra: some chains live on a lineality space of dimension 2 with skewed (non axis-parallel, mutually
    // non-orthogonal) lines, where the widening heuristics and certificates that look at rays must work modulo the lines
    long lines = 0;
    if (Dom<D>::kind == POLY && r.chance(20)) { lines = 2; dim = (int) r.range(3, 4); }
    p.knobs["dim"] = dim; p.knobs["W"] = dim + 2; p.knobs["pseed"] = (long) r.below(1000000);
    if (lines) { p.knobs["lines"] = lines; p.knobs["lseed"] = (long) r.below(1000000); }
    int W = dim + 2;
    { Op op; op.kind = "start"; op.a = { r.range(2, 5) }; OH::gen_construct(r, op, W, false); p.ops.push_back(op); }
    long n = r.range(3, thorough ? 24 : 12);
    for (long i = 0; i < n; ++i) {
      Op op; op.kind = "step";
      op.a = { r.range(0, 2), r.chance(25) ? r.range(1, 3) : 0, r.chance(25) ? r.range(1, 2) : 0, r.range(2, 5) };
      OH::gen_construct(r, op, W, false);
      for (int k = 0; k < 2; ++k) { op.a.push_back(r.range(0, 5)); gen_expr(r, op, W, false); }
      // histories: value-preserving (or enlarging, for the smaller argument) operations applied to the two arguments
      // before the widening, so that lazy states (pending rows, cached closures / reductions, stale flags) reach it
      op.a.push_back(r.chance(50) ? r.range(1, 5) : 0); op.a.push_back(r.chance(50) ? r.range(1, 5) : 0); op.a.push_back(r.range(0, 7)); op.a.push_back(r.range(0, 7));
      p.ops.push_back(op);
    }
    return p;
  }

  // Lazy-state histories.  1: query the minimized constraints (caches closure / reduction / both descriptions);
  // 2: query emptiness and a bound; 3: split: re-add the object's own constraints one by one after a minimization
  // (pending rows for polyhedra, non-closed matrices for shapes); 4 (may_grow only): forget one variable after the
  // reduction has been cached; 5: add a dimension and remove it again.
  static void history(D& z, long h, long var, dimension_type dim, bool may_grow, Ctx& ctx) {
    if (h == 0) return;
    ctx.stat("widen.history." + std::to_string(h));
    if (h == 1) { (void) z.minimized_constraints(); }
    else if (h == 2) { (void) z.is_empty(); if (dim > 0) (void) z.bounds_from_above(Linear_Expression(Variable((dimension_type) var % dim))); }
    else if (h == 3) {
      if constexpr (Dom<D>::kind == GRID) { (void) z.minimized_congruences(); PPL::Congruence_System cgs = z.congruences(); D r(dim, PPL::UNIVERSE); (void) r.minimized_grid_generators();
        for (auto i = cgs.begin(); i != cgs.end(); ++i) { r.add_congruence(*i); } z.m_swap(r); }
      else { Constraint_System cs = z.minimized_constraints(); D r(dim, PPL::UNIVERSE); bool first = true;
        for (auto i = cs.begin(); i != cs.end(); ++i) { r.add_constraint(*i); if (first) { (void) r.minimized_constraints(); (void) r.is_empty(); first = false; } }
        z.m_swap(r); }
    }
    else if (h == 4) { if (may_grow && dim > 0) { (void) z.minimized_constraints(); z.unconstrain(Variable((dimension_type) var % dim)); } }
    else if (h == 5) { z.add_space_dimensions_and_embed(1); z.remove_higher_space_dimensions(dim); }
    if constexpr (Dom<D>::kind == GRID) {   // congruences up to date but not minimized, generators minimized (and the converse)
      // an identity affine image keeps both descriptions up to date and clears both "minimized" flags
      if (h == 2 && dim > 0) { (void) z.congruences(); (void) z.grid_generators(); z.affine_image(Variable((dimension_type) var % dim), Linear_Expression(Variable((dimension_type) var % dim))); (void) z.minimized_grid_generators(); }
      else if (h == 4 && !may_grow && dim > 0) { (void) z.congruences(); (void) z.grid_generators(); z.affine_image(Variable((dimension_type) var % dim), Linear_Expression(Variable((dimension_type) var % dim))); (void) z.minimized_congruences(); }
    }
  }

  static std::string kl(const Op& op, const std::string& v, const std::string& extra) { return std::string(Dom<D>::name()) + "|" + op.kind + "|-|" + v + (extra.empty() ? "" : "|" + extra); }

  static bool contains_set(const D& big, const D& small) { D a(big), b(small); return a.contains(b); }

  void run(const Plan& plan, Ctx& ctx) override {
    int dim = (int) std::min(4L, std::max(1L, plan.knob("dim", 2)));
    int W = (int) std::min(8L, std::max(1L, plan.knob("W", dim + 2)));
    Probes probes; probes.seed = (u64) plan.knob("pseed", 1);
    std::unique_ptr<D> x;
    long idx = -1; long stationary_run = 0;
    for (const Op& op : plan.ops) {
      ++idx;
      if (!ctx.viols.empty()) break;
      ctx.begin_op(idx, op);
      ctx.log(op.kind);
      try {
        if (op.kind == "start") { Cur c(op, 0, W); x = OH::construct_dim(dim, c);
          if constexpr (Dom<D>::kind == POLY) {
            long nl = std::min(3L, std::max(0L, plan.knob("lines", 0)));
            bool e; { D t(*x); e = t.is_empty(); }
            if (nl > 0 && !e) {
              u64 ls = (u64) plan.knob("lseed", 1) * 2654435761ULL + 12345;
              for (long l = 0; l < nl; ++l) {
                Linear_Expression le; bool nz = false;
                for (int k = 0; k < dim; ++k) { ls = ls * 6364136223846793005ULL + 1442695040888963407ULL; long cf = (long) ((ls >> 33) % 5) - 2; if (cf != 0) nz = true; le += cf * Variable((dimension_type) k); }
                if (!nz) le += Variable((dimension_type) (l % dim));
                x->add_generator(PPL::line(le));
              }
              ctx.stat("widen.skewed_lineality_chain");
            }
          }
          ++ctx.ops_done; continue; }
        if (!x) x.reset(new D((dimension_type) dim, PPL::EMPTY));
        int v = (int) op.mod(0, WOps<D>::count());
        unsigned tokens = (unsigned) op.mod(1, 4);
        int form = (int) op.mod(2, 3);
        std::string vn = WOps<D>::name(v);
        long tail = (long) op.a.size();
        long hx = tail >= 4 ? op.a[(size_t) tail - 4] : 0, hy = tail >= 4 ? op.a[(size_t) tail - 3] : 0;
        long hv1 = tail >= 4 ? op.a[(size_t) tail - 2] : 0, hv2 = tail >= 4 ? op.a[(size_t) tail - 1] : 0;
        // history of the smaller argument (it may grow: the chain stays ascending)
        history(*x, hx, hv1, (dimension_type) dim, true, ctx);
        // ---- grow: y = upper bound of x and a perturbation
        Cur c(op, 3, W);
        std::unique_ptr<D> pert = OH::construct_dim(dim, c);
        D y(*x);
        y.upper_bound_assign(*pert);
        history(y, hy, hv2, (dimension_type) dim, false, ctx);
        if (!contains_set(y, *x)) { ctx.violation("C08", "chain-not-ascending", kl(op, vn, ""), "upper bound does not contain its argument (workload defect, not a widening defect)"); break; }
        Constraint_System cs;
        for (int k = 0; k < 2; ++k) cs.insert(OH::make_constraint(c, (dimension_type) dim, false, true));
        // ---- the library's own certificates depend on the point set only (whatever lazy state the object is in)
        { bool ey, ex; { D t(y); ey = t.is_empty(); } { D t(*x); ex = t.is_empty(); }
          if (!ey) { std::unique_ptr<D> ty = canonical(y, (int) idx + 2); ctx.stat("widen.certificate_consistency_checked");
            if (!WOps<D>::cert_same(y, *ty)) { ctx.violation("C08", "certificate-representation-dependent", kl(op, "", ""), "the convergence certificates of two objects denoting the same set differ"); break; } }
          if (!ex && !ey && !WOps<D>::cert_overloads_agree(*x, y)) { ctx.violation("C08", "certificate-overloads-disagree", kl(op, "", ""), "comparing a certificate with an element and with that element's certificate gives different answers"); break; }
          if (!ex) { std::unique_ptr<D> tx = canonical(*x, (int) idx + 3);
            if (!WOps<D>::cert_same(*x, *tx)) { ctx.violation("C08", "certificate-representation-dependent", kl(op, "", "smaller"), "the convergence certificates of two objects denoting the same set differ"); break; } } }
        // ---- plain widening and its twin
        D w(y);
        WOps<D>::plain(v, w, *x, nullptr);
        ctx.stat(std::string("widen.") + vn);
        if (!w.OK()) { ctx.violation("C08", "ok", kl(op, vn, ""), "OK() false after widening"); break; }
        if (!contains_set(w, y)) { ctx.violation("C08", "not-superset", kl(op, vn, ""), "the widening does not contain its larger argument"); break; }
        if (fingerprint(w, probes) != fingerprint(w, probes)) {}
        { Fp fy = fingerprint(y, probes), fw = fingerprint(w, probes); for (size_t i = 0; i < fy.bits.size() && i < fw.bits.size(); ++i) if (fy.bits[i] && !fw.bits[i]) { ctx.violation("C08", "not-superset", kl(op, vn, "probe"), "a point of the larger argument is not in the widening"); break; } }
        if (!ctx.viols.empty()) break;
        {
          std::unique_ptr<D> ty = canonical(y, (int) idx), tx = canonical(*x, (int) idx + 1);
          D tw(*ty);
          WOps<D>::plain(v, tw, *tx, nullptr);
          ctx.stat("widen.twin_compared");
          if (!same_value(w, tw) || fingerprint(tw, probes) != fingerprint(w, probes)) {
            // NNC polyhedra: the library documents that its widenings work on the internal (epsilon) representation;
            // that is where the arguments' construction history shows through (known finding F21)
            std::string disc;
            if constexpr (Dom<D>::kind == POLY) { if (Dom<D>::nnc) { D cy(y), cx(*x); if (!cy.is_topologically_closed() || !cx.is_topologically_closed()) disc = "nnc-not-closed"; } }
            ctx.violation("C08", "representation-dependent", kl(op, vn, disc), "the widening of equal arguments built differently gives a different set");
            if (getenv("VERIF_TRACE")) std::cerr << "TRACE y\n" << dump_of(y) << "TRACE x\n" << dump_of(*x) << "TRACE w\n" << dump_of(w) << "TRACE tw\n" << dump_of(tw) << "\n";
            break;
          }
        }
        // ---- certificate: every non-stationary step strictly decreases it
        bool stationary = same_value(w, *x);
        if (stationary) ++stationary_run; else stationary_run = 0;
        bool older_empty; { D e(*x); older_empty = e.is_empty(); }
        if (!stationary && !older_empty) {      // certificates are defined for non-empty elements only
          int cd = WOps<D>::cert(v, *x, w);
          if (cd == 0) { ctx.violation("C08", "certificate-not-decreasing", kl(op, vn, ""), "a non-stationary widening step did not decrease the convergence certificate"); break; }
          if (cd == 1) ctx.stat("widen.certificate_checked");
        }
        if (!stationary) ++ctx.faults_fired;
        // ---- tokens: consumed exactly when plain widening would lose precision; the object is then left unchanged
        if (tokens > 0) {
          D t(y); unsigned tk = tokens;
          WOps<D>::plain(v, t, *x, &tk);
          bool loses = !same_value(w, y);
          ctx.stat("widen.tokens_checked");
          if (!same_value(t, y)) { ctx.violation("C08", "tokens", kl(op, vn, "changed"), "called with " + std::to_string(tokens) + " token(s): the object changed"); break; }
          if (tk != tokens - (loses ? 1 : 0)) { ctx.violation("C08", "tokens", kl(op, vn, "count"), "tokens " + std::to_string(tokens) + " -> " + std::to_string(tk) + " although plain widening " + (loses ? "loses" : "does not lose") + " precision"); break; }
        }
        // ---- limited / bounded extrapolation
        if (form > 0) {
          D l(y);
          bool have = false;
          try { have = WOps<D>::limited(v, form, l, *x, cs, nullptr); } catch (const std::invalid_argument&) { have = false; ctx.stat("widen.limited_rejected"); }
          if (have) {
            ctx.stat(form == 1 ? "widen.limited_checked" : "widen.bounded_checked");
            if (!l.OK()) { ctx.violation("C08", "ok", kl(op, vn, form == 1 ? "limited" : "bounded"), "OK() false after extrapolation"); break; }
            if (!contains_set(l, y)) { ctx.violation("C08", "limited-not-superset", kl(op, vn, form == 1 ? "limited" : "bounded"), "the extrapolation does not contain the larger argument"); break; }
            if (form == 1 && !contains_set(w, l)) { ctx.violation("C08", "limited-exceeds-widening", kl(op, vn, "limited"), "the limited extrapolation is not contained in the plain widening"); break; }
            // every supplied constraint satisfied by y must be satisfied by the result
            for (Constraint_System::const_iterator i = cs.begin(); i != cs.end(); ++i) {
              D cy(y); PPL::Poly_Con_Relation ry = cy.relation_with(*i);
              if (!ry.implies(PPL::Poly_Con_Relation::is_included())) continue;
              D cl(l); PPL::Poly_Con_Relation rl = cl.relation_with(*i);
              if (!rl.implies(PPL::Poly_Con_Relation::is_included())) { ctx.violation("C08", "limited-drops-constraint", kl(op, vn, form == 1 ? "limited" : "bounded"), "a supplied constraint satisfied by the larger argument is violated by the extrapolation"); break; }
            }
            if (!ctx.viols.empty()) break;
          }
        }
        ctx.state(vn + "|stationary" + std::to_string(stationary) + "|" + status_of_dump(dump_of(w)).substr(0, 40));
        *x = w;
        ++ctx.ops_done;
        ctx.log(fingerprint(*x, probes).hash());
      }
      catch (const std::invalid_argument& e) { ctx.stat("widen.rejected"); continue; }
      catch (const std::exception& e) { ctx.violation("C08", "unexpected-exception", kl(op, "", typeid(e).name()), e.what()); break; }
    }
    ctx.nontrivial = ctx.ops_done >= 3 && ctx.faults_fired >= 1;
  }
};

// ---- powersets: the certificate-based BHZ03 lifting and the BGP99 extrapolation (C08)
// The chain: the next larger argument is the current powerset with some disjuncts enlarged (upper bound with a plan-chosen
// polyhedron) and some added, so that the previous iterate definitely entails it (the operator's precondition).
// Judged per step: OK(), the result covers the larger argument (on probe points, and geometrically when small), and for
// BHZ03 every non-stationary step is stabilizing in the sense the operator is certified by: the certificate of the
// poly-hull decreases, or it is equal and several disjuncts were collapsed into one, or it is equal and the multiset of
// the disjuncts' certificates decreases (the ordering of [BHZ03b], re-implemented here over the public certificate classes).  BGP99 (an extrapolation: max_disjuncts bounds the number of
// disjuncts before the heuristics are applied, not afterwards): OK() and covering only.
template <class PH> struct PsetWidenHarness : Harness {
  typedef PPL::Pointset_Powerset<PH> PS;
  typedef ObjHarness<PH> OH;
  std::string nm;
  PsetWidenHarness() : nm(std::string("Powerset_") + Dom<PH>::name()) {}
  const char* name() const override { return "widen"; }
  int child_seconds() const override { return 60; }

  Plan generate(Rng& r, const std::string&, bool thorough) override {
    Plan p; p.domain = nm;
    int dim = (int) r.range(1, thorough ? 3 : 2);
    p.knobs["dim"] = dim; p.knobs["W"] = dim + 2; p.knobs["pseed"] = (long) r.below(1000000);
    int W = dim + 2;
    { Op op; op.kind = "start"; long k = r.range(1, 3); op.a = { k };
      for (long i = 0; i < k; ++i) { op.a.push_back(r.range(2, 5)); OH::gen_construct(r, op, W, false); }
      p.ops.push_back(op); }
    long n = r.range(3, thorough ? 14 : 8);
    for (long i = 0; i < n; ++i) {
      Op op; op.kind = "pstep";
      long g = r.range(1, 2);
      op.a = { r.range(0, 3), r.range(1, 4), r.range(0, 3), g };
      for (long j = 0; j < g; ++j) { op.a.push_back(r.chance(35) ? -1 : r.range(0, 5)); op.a.push_back(r.range(2, 5)); OH::gen_construct(r, op, W, false); }
      p.ops.push_back(op);
    }
    return p;
  }

  static std::string kl(const std::string& dom, const Op& op, const std::string& v, const std::string& extra) { return dom + "|" + op.kind + "|-|" + v + (extra.empty() ? "" : "|" + extra); }
  static bool in_set(const PS& s, const QPoint& p) { for (auto i = s.begin(); i != s.end(); ++i) { PH c(i->pointset()); if (member_of(c, p)) return true; } return false; }
  static PH hull_of(const PS& s, dimension_type dim) { PH h(dim, PPL::EMPTY); for (auto i = s.begin(); i != s.end(); ++i) { PH c(i->pointset()); h.upper_bound_assign(c); } return h; }
  // 1: (older, newer) is stabilizing; 0: not
  template <class Cert> static bool stabilizing(const PS& older, const PS& newer, dimension_type dim) {
    PH ho = hull_of(older, dim), hn = hull_of(newer, dim);
    Cert co(ho); int c = co.compare(hn);
    if (c == 1) return true;
    if (c != 0) return false;
    // (second component of the powerset certificate [BHZ03b]: collapsing several disjuncts into one)
    if (older.size() > 1 && newer.size() == 1) return true;
    if (older.size() <= 1) return false;
    typedef std::map<Cert, size_t, typename Cert::Compare> MS;
    MS mo, mn;
    for (auto i = older.begin(); i != older.end(); ++i) { PH t(i->pointset()); Cert k(t); ++mo[k]; }
    for (auto i = newer.begin(); i != newer.end(); ++i) { PH t(i->pointset()); Cert k(t); ++mn[k]; }
    auto xi = mn.begin(); auto yi = mo.begin();
    while (xi != mn.end() && yi != mo.end()) {
      int r = xi->first.compare(yi->first);
      if (r == 0) { if (xi->second == yi->second) { ++xi; ++yi; } else return xi->second < yi->second; }
      else return r == -1;
    }
    return yi != mo.end();
  }

  void run(const Plan& plan, Ctx& ctx) override {
    int dim = (int) std::min(3L, std::max(1L, plan.knob("dim", 2)));
    int W = (int) std::min(8L, std::max(1L, plan.knob("W", dim + 2)));
    Probes probes; probes.seed = (u64) plan.knob("pseed", 1);
    std::unique_ptr<PS> x; long idx = -1;
    for (const Op& op : plan.ops) {
      ++idx;
      if (!ctx.viols.empty()) break;
      ctx.begin_op(idx, op); ctx.log(op.kind);
      try {
        if (op.kind == "start") {
          x.reset(new PS((dimension_type) dim, PPL::EMPTY));
          long k = std::min(3L, std::max(1L, op.mod(0, 4))); size_t pos = 1;
          for (long i = 0; i < k && pos < op.a.size(); ++i) { Cur c(op, pos, W); std::unique_ptr<PH> d = OH::construct_dim(dim, c); pos = c.i; x->add_disjunct(*d); }
          ++ctx.ops_done; continue;
        }
        if (op.kind != "pstep" || !x) continue;
        int v = (int) op.mod(0, 4); unsigned md = (unsigned) (1 + op.mod(1, 4)); long hist = op.mod(2, 4); long g = std::min(2L, std::max(1L, op.mod(3, 3)));
        std::string vn = v == 0 ? "BHZ03_H79" : v == 1 ? "BHZ03_BHRZ03" : v == 2 ? "BGP99_H79" : "BGP99_BHRZ03";
        (void) x->omega_reduce();
        if (x->size() == 0) { ctx.stat("pwiden.empty_chain"); break; }
        // ---- the larger argument
        std::vector<PH> ds; for (auto i = x->begin(); i != x->end(); ++i) ds.push_back(PH(i->pointset()));
        size_t pos = 4; std::vector<PH> fresh;
        for (long j = 0; j < g && pos + 1 < op.a.size(); ++j) {
          long target = op.a[pos]; Cur c(op, pos + 1, W); std::unique_ptr<PH> d = OH::construct_dim(dim, c); pos = c.i;
          if (target < 0 || ds.empty()) fresh.push_back(*d); else ds[(size_t) target % ds.size()].upper_bound_assign(*d);
        }
        PS y((dimension_type) dim, PPL::EMPTY);
        for (auto& d : ds) y.add_disjunct(d);
        for (auto& d : fresh) y.add_disjunct(d);
        if (hist == 1) y.omega_reduce(); else if (hist == 2) y.pairwise_reduce();
        { PS a(*x), b(y); if (!a.definitely_entails(b)) { if (hist == 2) { ctx.stat("pwiden.precondition_lost_by_pairwise_reduce"); PS z((dimension_type) dim, PPL::EMPTY); for (auto& d : ds) z.add_disjunct(d); for (auto& d : fresh) z.add_disjunct(d); y.m_swap(z); }
            else { ctx.violation("C08", "chain-not-ascending", kl(nm, op, vn, ""), "the previous iterate does not entail the enlarged powerset (workload defect)"); break; } } }
        if (y.size() > 8) { ctx.stat("pwiden.too_many_disjuncts"); break; }
        // ---- widen
        PS w(y);
        if (v == 0) w.template BHZ03_widening_assign<PPL::H79_Certificate>(*x, PPL::widen_fun_ref(&PPL::Polyhedron::H79_widening_assign));
        else if (v == 1) w.template BHZ03_widening_assign<PPL::BHRZ03_Certificate>(*x, PPL::widen_fun_ref(&PPL::Polyhedron::BHRZ03_widening_assign));
        else if (v == 2) w.BGP99_extrapolation_assign(*x, PPL::widen_fun_ref(&PPL::Polyhedron::H79_widening_assign), md);
        else w.BGP99_extrapolation_assign(*x, PPL::widen_fun_ref(&PPL::Polyhedron::BHRZ03_widening_assign), md);
        ctx.stat("pwiden." + vn);
        if (!w.OK()) { ctx.violation("C08", "ok", kl(nm, op, vn, ""), "OK() false after the powerset widening"); break; }
        { auto& pv = probes.of((dimension_type) dim); bool bad = false;
          for (size_t k = 0; k < pv.size() && !bad; ++k) if (in_set(y, pv[k]) && !in_set(w, pv[k])) { ctx.violation("C08", "not-superset", kl(nm, op, vn, "probe"), "point " + oracle::show(pv[k]) + " of the larger argument is not in the widening"); bad = true; }
          if (bad) break; }
        if (w.size() <= 6 && y.size() <= 6) { PS a(w), b(y); ctx.stat("pwiden.geometric_cover_checked"); if (!a.geometrically_covers(b)) { ctx.violation("C08", "not-superset", kl(nm, op, vn, ""), "the powerset widening does not cover its larger argument"); break; } }
        if (v >= 2) { (void) w.omega_reduce(); ctx.stat("pwiden.bgp99_result_disjuncts_" + std::to_string(std::min<size_t>(w.size(), 9))); }
        else if (w.size() <= 6 && x->size() <= 6) {
          bool stationary; { PS a(*x), b(w); stationary = a.geometrically_covers(b); }
          if (!stationary) { ++ctx.faults_fired; (void) w.omega_reduce();
            bool st = v == 0 ? stabilizing<PPL::H79_Certificate>(*x, w, (dimension_type) dim) : stabilizing<PPL::BHRZ03_Certificate>(*x, w, (dimension_type) dim);
            ctx.stat("pwiden.certificate_checked");
            if (!st) { ctx.violation("C08", "certificate-not-decreasing", kl(nm, op, vn, ""), "a non-stationary BHZ03 step is not stabilizing (neither the hull certificate nor the multiset of certificates decreases)");
              if (getenv("VERIF_TRACE")) std::cerr << "TRACE x\n" << dump_of(*x) << "TRACE y\n" << dump_of(y) << "TRACE w\n" << dump_of(w) << "\n";
              break; } }
        }
        else ctx.stat("pwiden.certificate_skipped_large");
        if (v >= 2) ++ctx.faults_fired;
        ctx.state(vn + "|" + std::to_string(w.size()));
        *x = w; ++ctx.ops_done;
      }
      catch (const std::invalid_argument& e) { ctx.stat("widen.rejected"); continue; }
      catch (const std::exception& e) { ctx.violation("C08", "unexpected-exception", kl(nm, op, "", typeid(e).name()), e.what()); break; }
    }
    ctx.nontrivial = ctx.ops_done >= 3 && ctx.faults_fired >= 1;
  }
};
}  // namespace obj

template <class T> static void mk(MultiHarness& m) { m.add(new obj::WidenHarness<T>(), obj::Dom<T>::name()); }
int main(int argc, char** argv) {
  MultiHarness m("widen");
  mk<obj::PPL::C_Polyhedron>(m); mk<obj::PPL::NNC_Polyhedron>(m); mk<obj::PPL::Grid>(m);
  mk<obj::BDQ>(m); mk<obj::OSQ>(m); mk<obj::RBox>(m);
  m.add(new obj::PsetWidenHarness<obj::PPL::C_Polyhedron>(), "Powerset_C_Polyhedron");
  m.add(new obj::PsetWidenHarness<obj::PPL::NNC_Polyhedron>(), "Powerset_NNC_Polyhedron");
  return kit_main(argc, argv, m);
}
