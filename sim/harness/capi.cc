// Harness `capi` (C20): call sequences over generated thunks for the entry
// points of the C language interface (regenerated with m4 from the current
// tree), with allocation faults, simulated and deterministic timeouts,
// ill-formed arguments and in-memory FILE* streams.  Judged for every call,
// without per-function knowledge: nothing escapes, the return value is >= 0
// or a documented error code, the registered handler runs exactly once with
// that code iff the call failed, outputs are written only on success, const
// handles keep their value, every handle can still be deleted exactly once,
// nothing leaks.  With the fault known: the documented code.
#include "kit/simclock.hh"
#include "kit/ppl_all.hh"
#include "kit/faults.hh"
#include "kit/runner.hh"
#include "interfaced_boxes.hh"
#include "ppl_c.h"
#include <functional>
#include <memory>
#include <sstream>
#include <iostream>

namespace PPL = Parma_Polyhedra_Library;

namespace {

void* const SENTINEL = (void*) (uintptr_t) 0x5e471ae1;

// ---------------------------------------------------------------- value operations on handles (for const checks)
// faith: re-computes an entry point of the interfaced class on C++ clones taken before the call.
// Returns 0 when the entry point is not in the generic table, 1 when the C result agrees, -1 (with `why') when not.
struct FaithArgs { std::string op; const void* x_before; const void* y_before; const void* x_after; unsigned long d0, d1; int r;
                   std::vector<std::pair<std::string, const void*> > hs;     // every handle of the call, in argument order (type name, object after the call)
                   template <class T> const T* h(size_t i, const char* type) const { return i < hs.size() && hs[i].first == type ? static_cast<const T*>(hs[i].second) : nullptr; } };
struct TypeOps { std::function<void*(const void*)> clone; std::function<bool(const void*, const void*)> equal; std::function<void(void*)> destroy;
                 std::function<int(const FaithArgs&, std::string&)> faith;
                 std::function<bool(void*, const void*)> join; };   // x := upper bound of x and y (false: not possible)

// The generic table: entry points whose C++ counterpart is a member with the same name on every simple domain.
// The C++ operation runs on clones made before the call, so a wrapper that calls another method, swaps its
// arguments, drops one, or maps the Boolean answer wrongly disagrees; a C++ exception must be a negative return.
// documented mapping of the standard exception classes to error codes (most derived first, as CATCH_ALL must do)
inline int code_of_exception(const std::exception& e) {
  if (dynamic_cast<const std::bad_alloc*>(&e)) return PPL_ERROR_OUT_OF_MEMORY;
  if (dynamic_cast<const std::invalid_argument*>(&e)) return PPL_ERROR_INVALID_ARGUMENT;
  if (dynamic_cast<const std::domain_error*>(&e)) return PPL_ERROR_DOMAIN_ERROR;
  if (dynamic_cast<const std::length_error*>(&e)) return PPL_ERROR_LENGTH_ERROR;
  if (dynamic_cast<const std::logic_error*>(&e)) return PPL_ERROR_LOGIC_ERROR;
  if (dynamic_cast<const std::overflow_error*>(&e)) return PPL_ARITHMETIC_OVERFLOW;
  if (dynamic_cast<const std::runtime_error*>(&e)) return PPL_ERROR_INTERNAL_ERROR;
  return 0;
}
// MIP_Problem: the solving queries on a clone taken before the call
inline int faith_mip(const FaithArgs& a, std::string& why) {
  const PPL::MIP_Problem& xb = *static_cast<const PPL::MIP_Problem*>(a.x_before);
  PPL::MIP_Problem c(xb);
  int want = 0; bool is_bool = false, is_status = false; int expect_code = 0; bool threw = false;
  try {
    if (a.op == "is_satisfiable") { want = c.is_satisfiable(); is_bool = true; }
    else if (a.op == "solve") { PPL::MIP_Problem_Status st = c.solve(); want = st == PPL::UNFEASIBLE_MIP_PROBLEM ? PPL_MIP_PROBLEM_STATUS_UNFEASIBLE : st == PPL::UNBOUNDED_MIP_PROBLEM ? PPL_MIP_PROBLEM_STATUS_UNBOUNDED : PPL_MIP_PROBLEM_STATUS_OPTIMIZED; is_status = true; }
    else if (a.op == "feasible_point") (void) c.feasible_point();
    else if (a.op == "optimizing_point") (void) c.optimizing_point();
    else if (a.op == "OK") { want = c.OK(); is_bool = true; }
    else return 0;
  }
  catch (const std::exception& e) { threw = true; expect_code = code_of_exception(e); }
  if (threw) {
    if (a.r >= 0) { why = "the C++ operation throws on the same problem but the C call reported success"; return -1; }
    if (expect_code != 0 && a.r != expect_code) { why = "the C++ operation throws an exception documented as error code " + std::to_string(expect_code) + ", the C call returned " + std::to_string(a.r); return -1; }
    return 1;
  }
  if (a.r < 0) { why = "the C++ operation succeeds on the same problem but the C call failed with " + std::to_string(a.r); return -1; }
  if (is_bool && (a.r > 0) != (want != 0)) { why = std::string("C++ answers ") + (want ? "true" : "false") + ", the C call returned " + std::to_string(a.r); return -1; }
  if (is_status && a.r != want) { why = "C++ status code " + std::to_string(want) + ", the C call returned " + std::to_string(a.r); return -1; }
  return 1;
}
template <class T, class EQ> int faith_domain(const FaithArgs& a, std::string& why, EQ same) {
  const T& xb = *static_cast<const T*>(a.x_before);
  const T* yb = static_cast<const T*>(a.y_before);
  const T& xa = *static_cast<const T*>(a.x_after);
  const std::string& op = a.op;
  int expect_bool = -1; bool mut = false; bool threw = false; int expect_code = 0;
  T c(xb);
  try {
    if (op == "is_empty") expect_bool = xb.is_empty();
    else if (op == "is_universe") expect_bool = xb.is_universe();
    else if (op == "is_bounded") expect_bool = xb.is_bounded();
    else if (op == "is_topologically_closed") expect_bool = xb.is_topologically_closed();
    else if (op == "is_discrete") expect_bool = xb.is_discrete();
    else if (op == "contains_integer_point") expect_bool = xb.contains_integer_point();
    else if (op == "OK") expect_bool = xb.OK();
    else if (op == "constrains") expect_bool = xb.constrains(PPL::Variable(a.d0));
    else if (op == "contains" && yb) expect_bool = xb.contains(*yb);
    else if (op == "strictly_contains" && yb) expect_bool = xb.strictly_contains(*yb);
    else if (op == "is_disjoint_from" && yb) expect_bool = xb.is_disjoint_from(*yb);
    else if (op == "equals" && yb) expect_bool = (xb == *yb);
    else if (op == "simplify_using_context_assign" && yb) { expect_bool = c.simplify_using_context_assign(*yb); mut = true; }
    else if (op == "topological_closure_assign") { c.topological_closure_assign(); mut = true; }
    else if (op == "add_space_dimensions_and_embed") { c.add_space_dimensions_and_embed(a.d0); mut = true; }
    else if (op == "add_space_dimensions_and_project") { c.add_space_dimensions_and_project(a.d0); mut = true; }
    else if (op == "remove_higher_space_dimensions") { c.remove_higher_space_dimensions(a.d0); mut = true; }
    else if (op == "unconstrain_space_dimension") { c.unconstrain(PPL::Variable(a.d0)); mut = true; }
    else if (op == "expand_space_dimension") { c.expand_space_dimension(PPL::Variable(a.d0), a.d1); mut = true; }
    else if (op == "intersection_assign" && yb) { c.intersection_assign(*yb); mut = true; }
    else if (op == "upper_bound_assign" && yb) { c.upper_bound_assign(*yb); mut = true; }
    else if (op == "difference_assign" && yb) { c.difference_assign(*yb); mut = true; }
    else if (op == "time_elapse_assign" && yb) { c.time_elapse_assign(*yb); mut = true; }
    else if (op == "concatenate_assign" && yb) { c.concatenate_assign(*yb); mut = true; }
    // operations with syntactic arguments (read from the const handles, which the call does not change)
    else if ((op == "bounds_from_above" || op == "bounds_from_below") && a.h<PPL::Linear_Expression>(1, "Linear_Expression")) {
      const PPL::Linear_Expression& le = *a.h<PPL::Linear_Expression>(1, "Linear_Expression"); expect_bool = op == "bounds_from_above" ? xb.bounds_from_above(le) : xb.bounds_from_below(le); }
    else if ((op == "maximize" || op == "minimize") && a.h<PPL::Linear_Expression>(1, "Linear_Expression") && a.h<PPL::Coefficient>(2, "Coefficient") && a.h<PPL::Coefficient>(3, "Coefficient")) {
      const PPL::Linear_Expression& le = *a.h<PPL::Linear_Expression>(1, "Linear_Expression"); PPL::Coefficient n, d; bool m;
      bool b = op == "maximize" ? xb.maximize(le, n, d, m) : xb.minimize(le, n, d, m); expect_bool = b;
      if (b && a.r > 0 && (*a.h<PPL::Coefficient>(2, "Coefficient") != n || *a.h<PPL::Coefficient>(3, "Coefficient") != d)) { why = "the numerator / denominator written by the C call differ from those of the C++ operation"; return -1; } }
    else if ((op == "affine_image" || op == "affine_preimage") && a.h<PPL::Linear_Expression>(1, "Linear_Expression") && a.h<PPL::Coefficient>(2, "Coefficient")) {
      const PPL::Linear_Expression& le = *a.h<PPL::Linear_Expression>(1, "Linear_Expression"); const PPL::Coefficient& den = *a.h<PPL::Coefficient>(2, "Coefficient");
      if (op == "affine_image") c.affine_image(PPL::Variable(a.d0), le, den); else c.affine_preimage(PPL::Variable(a.d0), le, den); mut = true; }
    else if ((op == "bounded_affine_image" || op == "bounded_affine_preimage") && a.h<PPL::Linear_Expression>(1, "Linear_Expression") && a.h<PPL::Linear_Expression>(2, "Linear_Expression") && a.h<PPL::Coefficient>(3, "Coefficient")) {
      const PPL::Linear_Expression& lb = *a.h<PPL::Linear_Expression>(1, "Linear_Expression"); const PPL::Linear_Expression& ub = *a.h<PPL::Linear_Expression>(2, "Linear_Expression"); const PPL::Coefficient& den = *a.h<PPL::Coefficient>(3, "Coefficient");
      if (op == "bounded_affine_image") c.bounded_affine_image(PPL::Variable(a.d0), lb, ub, den); else c.bounded_affine_preimage(PPL::Variable(a.d0), lb, ub, den); mut = true; }
    else if ((op == "add_constraint" || op == "refine_with_constraint") && a.h<PPL::Constraint>(1, "Constraint")) {
      const PPL::Constraint& k = *a.h<PPL::Constraint>(1, "Constraint"); if (op == "add_constraint") c.add_constraint(k); else c.refine_with_constraint(k); mut = true; }
    else if ((op == "add_constraints" || op == "refine_with_constraints") && a.h<PPL::Constraint_System>(1, "Constraint_System")) {
      const PPL::Constraint_System& k = *a.h<PPL::Constraint_System>(1, "Constraint_System"); if (op == "add_constraints") c.add_constraints(k); else c.refine_with_constraints(k); mut = true; }
    else if ((op == "add_congruence" || op == "refine_with_congruence") && a.h<PPL::Congruence>(1, "Congruence")) {
      const PPL::Congruence& k = *a.h<PPL::Congruence>(1, "Congruence"); if (op == "add_congruence") c.add_congruence(k); else c.refine_with_congruence(k); mut = true; }
    else if ((op == "add_congruences" || op == "refine_with_congruences") && a.h<PPL::Congruence_System>(1, "Congruence_System")) {
      const PPL::Congruence_System& k = *a.h<PPL::Congruence_System>(1, "Congruence_System"); if (op == "add_congruences") c.add_congruences(k); else c.refine_with_congruences(k); mut = true; }
    else return 0;
  }
  catch (const std::exception& e) { threw = true; expect_code = code_of_exception(e); }
  if (threw) {
    if (a.r >= 0) { why = "the C++ operation throws on the same arguments but the C call reported success (" + std::to_string(a.r) + ")"; return -1; }
    if (expect_code != 0 && a.r != expect_code) { why = "the C++ operation throws an exception documented as error code " + std::to_string(expect_code) + ", the C call returned " + std::to_string(a.r); return -1; }
    return 1; }
  if (a.r < 0) { why = "the C++ operation succeeds on the same arguments but the C call failed with " + std::to_string(a.r); return -1; }
  if (expect_bool >= 0 && (a.r > 0) != (expect_bool != 0)) { why = std::string("C++ answers ") + (expect_bool ? "true" : "false") + ", the C call returned " + std::to_string(a.r); return -1; }
  if (mut && !same(&c, &xa)) { why = "the receiver after the C call differs from the result of the C++ operation on a clone taken before the call"; return -1; }
  return 1;
}
template <class T> TypeOps ops_eq() {
  return { [](const void* p) { return (void*) new T(*static_cast<const T*>(p)); },
           [](const void* a, const void* b) { return *static_cast<const T*>(a) == *static_cast<const T*>(b); },
           [](void* p) { delete static_cast<T*>(p); } };
}
template <class T> TypeOps ops_domain() {
  TypeOps t = { [](const void* p) { return (void*) new T(*static_cast<const T*>(p)); },
                [](const void* a, const void* b) { return *static_cast<const T*>(a) == *static_cast<const T*>(b); },
                [](void* p) { delete static_cast<T*>(p); }, nullptr };
  t.join = [](void* x, const void* y) { try { static_cast<T*>(x)->upper_bound_assign(*static_cast<const T*>(y)); return true; } catch (const std::exception&) { return false; } };
  t.faith = [](const FaithArgs& a, std::string& why) {
    return faith_domain<T>(a, why, [](const void* p, const void* q) { const T& x = *static_cast<const T*>(p); const T& y = *static_cast<const T*>(q); return x.space_dimension() == y.space_dimension() && x == y; }); };
  return t;
}
template <class T> TypeOps ops_dump() {   // value = ascii_dump text of a copy (syntactic classes)
  return { [](const void* p) { return (void*) new T(*static_cast<const T*>(p)); },
           [](const void* a, const void* b) { std::ostringstream x, y; static_cast<const T*>(a)->ascii_dump(x); static_cast<const T*>(b)->ascii_dump(y); return x.str() == y.str(); },
           [](void* p) { delete static_cast<T*>(p); } };
}
TypeOps ops_polyhedron() {
  return { [](const void* p) -> void* { const PPL::Polyhedron* ph = static_cast<const PPL::Polyhedron*>(p);
             if (ph->topology() == PPL::NECESSARILY_CLOSED) return (PPL::Polyhedron*) new PPL::C_Polyhedron(*static_cast<const PPL::C_Polyhedron*>(ph));
             return (PPL::Polyhedron*) new PPL::NNC_Polyhedron(*static_cast<const PPL::NNC_Polyhedron*>(ph)); },
           [](const void* a, const void* b) { const PPL::Polyhedron* x = static_cast<const PPL::Polyhedron*>(a); const PPL::Polyhedron* y = static_cast<const PPL::Polyhedron*>(b);
             return x->topology() == y->topology() && x->space_dimension() == y->space_dimension() && *x == *y; },
           [](void* p) { delete static_cast<PPL::Polyhedron*>(p); },
           [](const FaithArgs& a, std::string& why) -> int {
             const PPL::Polyhedron* xb = static_cast<const PPL::Polyhedron*>(a.x_before);
             const PPL::Polyhedron* yb = static_cast<const PPL::Polyhedron*>(a.y_before);
             if (yb && yb->topology() != xb->topology()) return 0;     // mixed topologies: judged by the generic laws only
             auto same = [](const void* p, const void* q) { const PPL::Polyhedron& x = *static_cast<const PPL::Polyhedron*>(p); const PPL::Polyhedron& y = *static_cast<const PPL::Polyhedron*>(q);
               return x.topology() == y.topology() && x.space_dimension() == y.space_dimension() && x == y; };
             if (xb->topology() == PPL::NECESSARILY_CLOSED) return faith_domain<PPL::C_Polyhedron>(a, why, same);
             return faith_domain<PPL::NNC_Polyhedron>(a, why, same); },
           [](void* x, const void* y) { try { static_cast<PPL::Polyhedron*>(x)->upper_bound_assign(*static_cast<const PPL::Polyhedron*>(y)); return true; } catch (const std::exception&) { return false; } } };
}
template <class PS> TypeOps ops_pset() {
  return { [](const void* p) { return (void*) new PS(*static_cast<const PS*>(p)); },
           [](const void* a, const void* b) { const PS* x = static_cast<const PS*>(a); const PS* y = static_cast<const PS*>(b); return x->space_dimension() == y->space_dimension() && x->geometrically_equals(*y); },
           [](void* p) { delete static_cast<PS*>(p); }, nullptr,
           [](void* x, const void* y) { try { static_cast<PS*>(x)->upper_bound_assign(*static_cast<const PS*>(y)); return true; } catch (const std::exception&) { return false; } } };
}
std::map<std::string, TypeOps> make_type_ops() {
  std::map<std::string, TypeOps> m;
  m["Coefficient"] = ops_eq<PPL::Coefficient>();
  m["Linear_Expression"] = ops_dump<PPL::Linear_Expression>();
  m["Constraint"] = ops_dump<PPL::Constraint>();
  m["Generator"] = ops_dump<PPL::Generator>();
  m["Congruence"] = ops_dump<PPL::Congruence>();
  m["Grid_Generator"] = ops_dump<PPL::Grid_Generator>();
  m["Constraint_System"] = ops_dump<PPL::Constraint_System>();
  m["Generator_System"] = ops_dump<PPL::Generator_System>();
  m["Congruence_System"] = ops_dump<PPL::Congruence_System>();
  m["Grid_Generator_System"] = ops_dump<PPL::Grid_Generator_System>();
  m["Polyhedron"] = ops_polyhedron();
  { TypeOps t = { [](const void* p) { return (void*) new PPL::MIP_Problem(*static_cast<const PPL::MIP_Problem*>(p)); },
                  [](const void* a, const void* b) {      // the PROBLEM (not the solver state, which const queries update lazily)
                    auto text = [](const PPL::MIP_Problem& m) { std::ostringstream o; o << m.space_dimension() << "|" << (int) m.optimization_mode() << "|";
                      m.objective_function().ascii_dump(o); for (PPL::MIP_Problem::const_iterator i = m.constraints_begin(); i != m.constraints_end(); ++i) i->ascii_dump(o);
                      const PPL::Variables_Set& iv = m.integer_space_dimensions(); for (PPL::Variables_Set::const_iterator i = iv.begin(); i != iv.end(); ++i) o << " i" << *i; return o.str(); };
                    return text(*static_cast<const PPL::MIP_Problem*>(a)) == text(*static_cast<const PPL::MIP_Problem*>(b)); },
                  [](void* p) { delete static_cast<PPL::MIP_Problem*>(p); }, faith_mip, nullptr };
    m["MIP_Problem"] = t; }
  m["Grid"] = ops_domain<PPL::Grid>();
  m["Rational_Box"] = ops_domain<PPL::Rational_Box>();
  m["BD_Shape_mpz_class"] = ops_domain<PPL::BD_Shape<mpz_class> >();
  m["BD_Shape_mpq_class"] = ops_domain<PPL::BD_Shape<mpq_class> >();
  m["Octagonal_Shape_mpz_class"] = ops_domain<PPL::Octagonal_Shape<mpz_class> >();
  m["Octagonal_Shape_mpq_class"] = ops_domain<PPL::Octagonal_Shape<mpq_class> >();
  m["Double_Box"] = ops_domain<PPL::Double_Box>();
  m["BD_Shape_double"] = ops_domain<PPL::BD_Shape<double> >();
  m["Octagonal_Shape_double"] = ops_domain<PPL::Octagonal_Shape<double> >();
  m["Pointset_Powerset_C_Polyhedron"] = ops_pset<PPL::Pointset_Powerset<PPL::C_Polyhedron> >();
  m["Pointset_Powerset_NNC_Polyhedron"] = ops_pset<PPL::Pointset_Powerset<PPL::NNC_Polyhedron> >();
  return m;
}

// ---------------------------------------------------------------- in-memory FILE*
struct MemFile { std::string data; size_t rpos = 0; long fail_at = -1; long written = 0; };
// (the stream callbacks are harness code running inside the call: they must not consume or suffer fault positions)
ssize_t mem_read(void* c, char* buf, size_t n) { FaultPause fp; MemFile* m = (MemFile*) c; size_t k = std::min(n, m->data.size() - m->rpos); if (k > 7) k = 7 + (m->rpos % 23);   // short reads
  k = std::min(k, m->data.size() - m->rpos); memcpy(buf, m->data.data() + m->rpos, k); m->rpos += k; return (ssize_t) k; }
ssize_t mem_write(void* c, const char* buf, size_t n) { FaultPause fp; MemFile* m = (MemFile*) c; if (m->fail_at >= 0 && m->written + (long) n > m->fail_at) { errno = ENOSPC; return 0; }
  m->data.append(buf, n); m->written += (long) n; return (ssize_t) n; }
int mem_close(void*) { return 0; }

struct CallCtx;
CallCtx* g_cc = nullptr;

struct CallCtx {
  Ctx* ctx = nullptr;
  std::vector<std::vector<void*> > pool;
  std::map<std::string, TypeOps>* tops = nullptr;
  const Op* op = nullptr; size_t cur = 0;
  std::string fname;
  // per call
  bool skipped = false, escaped = false;
  int handler_calls = 0, handler_code = 0;
  std::string escaped_what;
  std::vector<std::pair<int, const void*> > const_used;
  std::vector<void*> const_clones;
  std::map<int, std::string> dumps;          // last dump text per handle type (fed back to ascii_load)
  std::vector<MemFile*> files;
  bool fault_mode = false;
  long maxdim = 3;

  long next() { return op->arg(cur++); }
  long mod(long n) { long v = next(); if (n <= 0) return 0; v %= n; return v < 0 ? v + n : v; }
  std::vector<unsigned long> dims_drawn;
  ppl_dimension_type dim() { long v = mod(8); ppl_dimension_type d = v == 7 ? ~(ppl_dimension_type) 0 - 1 : (ppl_dimension_type) (v % (maxdim + 2)); /* 7: above every max_space_dimension() */ dims_drawn.push_back((unsigned long) d); return d; }
  long small() { return mod(5); }
  int small_int() { return (int) (next() % 4); }
  size_t dims(ppl_dimension_type* a) { size_t n = (size_t) mod(4); for (size_t i = 0; i < n; ++i) a[i] = (ppl_dimension_type) mod(maxdim + 1); return n; }
  // `type2`: a second pool the argument may equally come from (ppl_Polyhedron_* accept both C and NNC polyhedra)
  void* pick(int type, bool is_const, bool optional, int type2 = -1) {
    std::vector<void*>& v1 = pool[(size_t) type];
    static const std::vector<void*> none;
    const std::vector<void*>& v2 = type2 >= 0 ? pool[(size_t) type2] : none;
    long k = next();
    long n = (long) (v1.size() + v2.size());
    if (n == 0) return nullptr;
    if (optional && (k % 3 == 0)) return nullptr;
    size_t i = (size_t) (((k % n) + n) % n);
    void* p = i < v1.size() ? v1[i] : v2[i - v1.size()];
    // two output (non-const) Coefficient parameters of one call never receive the same handle: that is a caller error in any
    // interface (ppl_Grid_frequency with freq_n and val_n aliased divides by the value it has just overwritten)
    if (!is_const && std::string(HTN(type)) == "Coefficient") {
      for (long t = 0; t < n && std::find(mutable_used.begin(), mutable_used.end(), p) != mutable_used.end(); ++t) { i = (i + 1) % (size_t) n; p = i < v1.size() ? v1[i] : v2[i - v1.size()]; }
      if (std::find(mutable_used.begin(), mutable_used.end(), p) != mutable_used.end()) return nullptr;
    }
    if (is_const) const_used.push_back({ type, p }); else mutable_used.push_back(p);
    picked.push_back({ type, p });
    return p;
  }
  // faithfulness shadow: the first two handles of the call, cloned before it
  std::vector<std::pair<int, void*> > picked;
  std::vector<void*> picked_clones;
  int skip() { skipped = true; cleanup(); return 0; }
  // widenings: make the receiver contain the argument first (harness-side C++ call on the same objects)
  bool ensure_contains(void* x, const void* y) {
    if (picked.empty()) return false;
    FaultPause fp;
    auto it = tops->find(HTN(picked[0].first));
    if (it == tops->end() || !it->second.join) return false;          // class without a C++ shadow: the entry point is not called
    if (x == y) return true;
    if (picked.size() >= 2 && std::string(HTN(picked[1].first)) != HTN(picked[0].first)) return true;
    // harness-side computation: no timeout of the simulation may interrupt it (weight watcher, simulated clock, pending abandon request)
    void (*saved_cf)(void) = PPL::Weightwatch_Traits::check_function; PPL::Weightwatch_Traits::check_function = nullptr;
    bool saved_clock = g_clock.active; g_clock.active = false;
    const PPL::Throwable* volatile saved_ab = PPL::abandon_expensive_computations; PPL::abandon_expensive_computations = nullptr;
    (void) it->second.join(x, y);     // a failure (dimension / topology mismatch) leaves the call to be rejected by the library
    PPL::abandon_expensive_computations = saved_ab; g_clock.active = saved_clock; PPL::Weightwatch_Traits::check_function = saved_cf;
    return true;
  }
  void after_load(int r, void* h) {
    if (r >= 0) return;
    for (int t = 0; t < (int) pool.size(); ++t) {
      std::vector<void*>& v = pool[(size_t) t];
      auto f = std::find(v.begin(), v.end(), h);
      if (f == v.end()) continue;
      v.erase(f);
      int dr = DELETE_FN_of(t) ? DELETE_FN_of(t)(h) : 0;
      if (dr < 0) ctx->violation("C20", "delete-failed", kl("after-failed-load"), "deleting a handle whose ascii_load failed returned " + std::to_string(dr));
      ctx->stat("capi.deleted_after_failed_load");
      return;
    }
  }
  typedef int (*DelFn)(const void*);
  static DelFn DELETE_FN_of(int t);
  FILE* file(bool for_load) {
    MemFile* m = new MemFile; files.push_back(m);
    if (for_load) { long k = mod(4); if (k && !dumps.empty()) { auto it = dumps.begin(); std::advance(it, (long) (mod((long) dumps.size()))); m->data = it->second; if (k == 3 && m->data.size() > 4) m->data.resize(m->data.size() / 2); } else m->data = "garbage 1 2 3"; }
    else { long k = mod(6); if (k == 5) m->fail_at = mod(40); }
    cookie_io_functions_t io = { mem_read, mem_write, nullptr, mem_close };
    FILE* f = fopencookie(m, for_load ? "r" : "w", io);
    if (f && !for_load) setvbuf(f, nullptr, _IONBF, 0);
    return f;
  }
  void close_file(FILE* f) { if (f) fclose(f); }
  void before() {
    skipped = false; escaped = false; handler_calls = 0; handler_code = 0;
    FaultPause pause;
    for (auto& cu : const_used) {
      auto it = tops->find(HTN(cu.first));
      const_clones.push_back(it == tops->end() ? nullptr : it->second.clone(cu.second));
    }
    if (getenv("VERIF_TRACE")) for (auto& pk : picked) {
      std::string n = HTN(pk.first); std::cerr << "TRACE arg " << n << " @" << pk.second << "\n";
      if (n == "Constraint_System") static_cast<const PPL::Constraint_System*>(pk.second)->ascii_dump(std::cerr);
      else if (n == "Octagonal_Shape_double") static_cast<const PPL::Octagonal_Shape<double>*>(pk.second)->ascii_dump(std::cerr);
      else if (n == "Linear_Expression") static_cast<const PPL::Linear_Expression*>(pk.second)->ascii_dump(std::cerr);
    }
    for (size_t i = 0; i < picked.size() && i < 2; ++i) {
      auto it = tops->find(HTN(picked[i].first));
      picked_clones.push_back(it == tops->end() || !it->second.faith ? nullptr : it->second.clone(picked[i].second));
    }
  }
  // entry point name -> (class, operation) of the generic table
  bool split_name(std::string& cls, std::string& opn) const {
    if (fname.compare(0, 4, "ppl_") != 0 || picked.empty()) return false;
    cls = HTN(picked[0].first);
    std::string pre = "ppl_" + cls + "_";
    if (fname.compare(0, pre.size(), pre) != 0) return false;
    opn = fname.substr(pre.size());
    std::string suf = "_" + cls;
    if (opn.size() > suf.size() && opn.compare(opn.size() - suf.size(), suf.size(), suf) == 0) opn.resize(opn.size() - suf.size());
    return true;
  }
  void faith_check(int r) {
    std::string cls, opn;
    if (arm_mode != 0 || escaped || !split_name(cls, opn) || picked_clones.empty() || !picked_clones[0]) return;
    if (r == PPL_ERROR_OUT_OF_MEMORY || r == PPL_TIMEOUT_EXCEPTION) return;
    TypeOps& to = (*tops)[cls];
    bool binary = picked.size() >= 2 && picked[1].first == picked[0].first;
    if (binary && !picked_clones[1]) return;
    FaithArgs a{ opn, picked_clones[0], binary ? picked_clones[1] : nullptr, picked[0].second, dims_drawn.size() > 0 ? dims_drawn[0] : 0UL, dims_drawn.size() > 1 ? dims_drawn[1] : 0UL, r, {} };
    for (auto& pk : picked) a.hs.push_back({ HTN(pk.first), pk.second });
    // a syntactic argument that is the same object as an output handle has been overwritten by the call: not replayable
    for (size_t i = 1; i < picked.size(); ++i) for (size_t j = 1; j < picked.size(); ++j) if (i != j && picked[i].second == picked[j].second && a.hs[i].first == "Coefficient" && (opn == "maximize" || opn == "minimize")) return;
    std::string why; int v = 0;
    try { v = to.faith(a, why); } catch (...) { v = 0; }
    if (v == 0) return;
    ctx->stat("capi.faithfulness_checks");
    if (v < 0) ctx->violation("C20", "unfaithful", kl(opn), why);
  }
  // The fault is armed around the entry point itself and nothing else: the thunk's own argument preparation
  // (mpz_init, FILE creation, clones for the const check) is harness code, not code under test.
  int arm_mode = 0;            // 0: none, 1: count allocations, 2: fail allocation arm_k
  long arm_k = 0; bool arm_sticky = false;
  long last_count = 0, last_failed = 0;
  void arm() { if (arm_mode == 1) fault_arm_count(); else if (arm_mode == 2) fault_arm_alloc(arm_k, arm_sticky); }
  void disarm() { if (arm_mode) { last_count = g_fault.count; last_failed = g_fault.failed; fault_disarm(); } }
  template <class F> int guard(F f) {
    int r = 0;
    arm();
    try { r = f(); disarm(); }
    catch (const std::exception& e) { disarm(); escaped = true; escaped_what = e.what(); }
    catch (...) { disarm(); escaped = true; escaped_what = "non-standard exception"; }
    return r;
  }
  static const char* HTN(int t);
  std::string kl(const std::string& extra) const { return "C|" + fname + "|" + (op->fault.empty() ? "-" : op->fault) + (extra.empty() ? "" : "|" + extra); }
  void out_owned(int r, int type, void* p) {
    if (r >= 0) { if (p == SENTINEL || p == nullptr) ctx->violation("C20", "output-not-written", kl(""), "success but the output handle was not written"); else pool[(size_t) type].push_back(p); }
    else if (p != SENTINEL) ctx->violation("C20", "output-written-on-failure", kl(std::to_string(r)), "the call failed but wrote its output handle");
  }
  void out_borrowed(int r, const void* p) {
    if (r >= 0 && p == SENTINEL) ctx->violation("C20", "output-not-written", kl(""), "success but the output reference was not written");
    if (r < 0 && p != SENTINEL) ctx->violation("C20", "output-written-on-failure", kl(std::to_string(r)), "the call failed but wrote its output reference");
  }
  void deleted(int r, int type, void* p) {
    std::vector<void*>& v = pool[(size_t) type];
    if (r >= 0) v.erase(std::remove(v.begin(), v.end(), p), v.end());
  }
  void cleanup() {
    for (size_t i = 0; i < const_clones.size(); ++i) if (const_clones[i]) (*tops)[HTN(const_used[i].first)].destroy(const_clones[i]);
    const_clones.clear(); const_used.clear(); mutable_used.clear();
    for (size_t i = 0; i < picked_clones.size(); ++i) if (picked_clones[i]) (*tops)[HTN(picked[i].first)].destroy(picked_clones[i]);
    picked_clones.clear(); picked.clear(); dims_drawn.clear();
    for (MemFile* m : files) delete m;
    files.clear();
  }
  int after(int r) {
    FaultPause pause;
    if (escaped) ctx->violation("C20", "exception-escaped", kl(""), "a C++ exception crossed the language boundary: " + escaped_what);
    else if (r < 0) {
      if (r < -12 || r == -1) ctx->violation("C20", "undocumented-code", kl(std::to_string(r)), "return value is not a documented error code");
      // PPL_STDIO_ERROR is a plain return value of the stream functions (no exception is involved): the
      // statement lists the exceptional exits that go through the handler, and this is not one of them
      if (r == PPL_STDIO_ERROR && handler_calls == 0) ctx->stat("capi.stdio_error_without_handler");
      else if (handler_calls != 1 || handler_code != r)
        ctx->violation("C20", "handler-protocol", kl(std::to_string(r)), "returned " + std::to_string(r) + " but the error handler ran " + std::to_string(handler_calls) + " time(s) with code " + std::to_string(handler_code));
      ctx->stat("capi.err." + std::to_string(r));
    }
    else if (handler_calls != 0) ctx->violation("C20", "handler-protocol", kl("success"), "success but the error handler ran");
    // const handles keep their value (unless the call failed by a resource fault: then see C14)
    for (size_t i = 0; i < const_used.size() && i < const_clones.size(); ++i) {
      if (!const_clones[i]) continue;
      if (r == PPL_ERROR_OUT_OF_MEMORY || r == PPL_TIMEOUT_EXCEPTION) continue;
      // a handle passed both as const and as receiver may change
      bool also_mutable = false;
      (void) also_mutable;
      TypeOps& to = (*tops)[HTN(const_used[i].first)];
      bool same = false;
      try { same = to.equal(const_used[i].second, const_clones[i]); } catch (...) { same = true; }
      if (!same && !receiver_alias(const_used[i].second) && getenv("VERIF_TRACE") && std::string(HTN(const_used[i].first)) == "Polyhedron") {
        std::cerr << "TRACE const handle before:\n"; static_cast<const PPL::Polyhedron*>(const_clones[i])->ascii_dump(std::cerr);
        std::cerr << "TRACE const handle after:\n"; static_cast<const PPL::Polyhedron*>(const_used[i].second)->ascii_dump(std::cerr); }
      if (!same && !receiver_alias(const_used[i].second) && getenv("VERIF_TRACE") && std::string(HTN(const_used[i].first)) == "Pointset_Powerset_NNC_Polyhedron") {
        typedef PPL::Pointset_Powerset<PPL::NNC_Polyhedron> PSN;
        std::cerr << "TRACE const handle before:\n"; static_cast<const PSN*>(const_clones[i])->ascii_dump(std::cerr);
        std::cerr << "TRACE const handle after:\n"; static_cast<const PSN*>(const_used[i].second)->ascii_dump(std::cerr); }
      if (!same && !receiver_alias(const_used[i].second)) ctx->violation("C20", "const-handle-modified", kl(HTN(const_used[i].first)), "a handle passed as const denotes a different value after the call");
    }
    faith_check(r);
    // remember dumps for later loads
    for (MemFile* m : files) if (!m->data.empty() && m->rpos == 0 && fname.find("ascii_dump") != std::string::npos && r >= 0) dumps[(int) (hash_str(fname) % 1000)] = m->data;
    if (getenv("VERIF_TRACE")) std::cerr << "TRACE " << fname << " -> " << r << "\n";
    ctx->stat(r >= 0 ? "capi.ok" : "capi.failed");
    cleanup();
    return r;
  }
  std::vector<const void*> mutable_used;
  bool receiver_alias(const void* p) const { return std::find(mutable_used.begin(), mutable_used.end(), p) != mutable_used.end(); }
};

extern "C" void capi_error_handler(enum ppl_enum_error_code code, const char*) { if (g_cc) { ++g_cc->handler_calls; g_cc->handler_code = (int) code; } }

#include "capi_thunks.inc"
const char* CallCtx::HTN(int t) { return t >= 0 && t < N_HTYPES ? HTYPE_NAMES[t] : "?"; }
CallCtx::DelFn CallCtx::DELETE_FN_of(int t) { return t >= 0 && t < N_HTYPES ? (CallCtx::DelFn) DELETE_FN[t] : nullptr; }

int htype_index(const char* n) { for (int i = 0; i < N_HTYPES; ++i) if (!strcmp(HTYPE_NAMES[i], n)) return i; return -1; }

// simulated CPU time: every maybe_abandon() checkpoint costs `g_step_us`
long g_step_us = 0;
void capi_abandon_hook() {
  fault_abandon_hook();
  if (g_clock.active && g_step_us > 0) g_clock.advance(g_step_us);
}

struct CapiHarness : Harness {
  std::map<std::string, const ThunkDesc*> by_name;
  std::map<std::string, TypeOps> tops;
  std::vector<const ThunkDesc*> with_handles, ctor_like;
  const char* name() const override { return "capi"; }
  int child_seconds() const override { return 30; }
  void warmup() override {
    for (int i = 0; i < N_THUNKS; ++i) {
      by_name[THUNKS[i].name] = &THUNKS[i];
      if (!strncmp(THUNKS[i].name, "ppl_new_", 8) || !strncmp(THUNKS[i].name, "ppl_assign_", 11)) ctor_like.push_back(&THUNKS[i]); else with_handles.push_back(&THUNKS[i]);
    }
    tops = make_type_ops();
    ppl_initialize();
    ppl_set_error_handler(capi_error_handler);
    PPL::verif_abandon_hook = capi_abandon_hook;
  }

  Plan generate(Rng& r, const std::string&, bool thorough) override {
    Plan p; p.domain = "C";
    p.knobs["maxdim"] = r.range(1, 3);
    bool faults = r.chance(50);
    long n = r.range(30, thorough ? 120 : 70);
    // swarm: this run concentrates on two or three interfaced classes (plus the class-independent entry points)
    static const char* CLASSES[] = { "Polyhedron", "Grid", "Rational_Box", "BD_Shape_mpz_class", "BD_Shape_mpq_class", "Octagonal_Shape_mpz_class", "Octagonal_Shape_mpq_class",
      "Constraints_Product_C_Polyhedron_Grid", "Pointset_Powerset_C_Polyhedron", "Pointset_Powerset_NNC_Polyhedron", "Double_Box", "BD_Shape_double", "Octagonal_Shape_double", "MIP_Problem", "PIP_Problem" };
    const int NC = (int) (sizeof CLASSES / sizeof *CLASSES);
    std::vector<std::string> chosen;
    for (int k = 0; k < 2 + (int) r.below(2); ++k) chosen.push_back(CLASSES[r.below((u64) NC)]);
    auto class_of = [&](const char* nm) -> int {      // -1: no class name in it; 1: one of the chosen; 0: another class
      std::string s(nm); bool any = false;
      for (int c = 0; c < NC; ++c) if (s.find(CLASSES[c]) != std::string::npos) { any = true; }
      if (!any) return -1;
      for (auto& c : chosen) if (s.find(c) != std::string::npos) return 1;
      return 0;
    };
    std::vector<const ThunkDesc*> cand_ctor, cand_other;
    for (auto* t : ctor_like) if (class_of(t->name) != 0) cand_ctor.push_back(t);
    for (auto* t : with_handles) if (class_of(t->name) != 0) cand_other.push_back(t);
    for (long i = 0; i < n; ++i) {
      Op op;
      const ThunkDesc* t;
      if (i < 10 || r.chance(20)) t = cand_ctor[r.below(cand_ctor.size())]; else t = cand_other[r.below(cand_other.size())];
      op.kind = t->name;
      int len = 14;
      for (int k = 0; k < len; ++k) op.a.push_back(r.chance(70) ? r.range(0, 3) : r.range(0, 40));
      if (faults && i >= 10 && r.chance(20)) { op.fault = r.chance(80) ? "alloc" : "allocs"; op.fk = (long) r.below(100000); }
      else if (i >= 10 && r.chance(4)) { op.fault = r.chance(50) ? "timeout" : "dtimeout"; op.fk = r.range(1, 3); }
      p.ops.push_back(op);
    }
    return p;
  }

  // scripted seeding: a few objects of the basic types so that random calls have something to work on
  void seed(CallCtx& C) {
    ppl_Coefficient_t c; ppl_Linear_Expression_t le; ppl_Constraint_t k; ppl_Constraint_System_t cs;
    for (int v = 0; v < 3; ++v) {
      mpz_t z; mpz_init_set_si(z, v + 1);
      if (ppl_new_Coefficient_from_mpz_t(&c, z) >= 0) C.pool[(size_t) htype_index("Coefficient")].push_back(c);
      mpz_clear(z);
      if (ppl_new_Linear_Expression_with_dimension(&le, (ppl_dimension_type) C.maxdim) >= 0) {
        ppl_Linear_Expression_add_to_coefficient(le, (ppl_dimension_type) (v % C.maxdim), c);
        ppl_Linear_Expression_add_to_inhomogeneous(le, c);
        C.pool[(size_t) htype_index("Linear_Expression")].push_back(le);
        if (ppl_new_Constraint(&k, le, v == 0 ? PPL_CONSTRAINT_TYPE_EQUAL : PPL_CONSTRAINT_TYPE_GREATER_OR_EQUAL) >= 0) {
          C.pool[(size_t) htype_index("Constraint")].push_back(k);
          if (ppl_new_Constraint_System_from_Constraint(&cs, k) >= 0) C.pool[(size_t) htype_index("Constraint_System")].push_back(cs);
        }
      }
    }
  }

  struct Judged { int r; bool skipped; };

  void seed_domains(CallCtx& C) {
    for (auto& kv : by_name) {
      const std::string& n = kv.first;
      if (n.size() > 21 && n.compare(0, 8, "ppl_new_") == 0 && n.compare(n.size() - 21, 21, "_from_space_dimension") == 0) {
        Op op; op.kind = n; op.a = { C.maxdim, 0 };
        do_call(C, kv.second, op);
      }
    }
  }

  Judged do_call(CallCtx& C, const ThunkDesc* t, const Op& op) {
    C.op = &op; C.cur = 0; C.fname = t->name; C.last_count = 0; C.last_failed = 0;
    int r = t->fn(C);
    return { r, C.skipped };
  }

  template <class F> bool in_grandchild(Ctx& ctx, const Op& op, const char* what, F body) {
    fflush(stdout); fflush(stderr);
    pid_t g = fork();
    if (g < 0) return false;
    if (g == 0) { kit_cpu_deadline(20); ctx.reset_for_branch(); body(); ctx.flush(false); _exit(0); }
    int st = 0;
    while (waitpid(g, &st, 0) < 0 && errno == EINTR) {}
    if (ctx.sh) ctx.sh->in_branch = 0;
    if (WIFEXITED(st) && WEXITSTATUS(st) == 0) return true;
    std::string how = WIFSIGNALED(st) ? "sig" + std::to_string(WTERMSIG(st)) : "exit" + std::to_string(WEXITSTATUS(st));
    ctx.violation("C20", "crash-in-fault-branch", "C|" + op.kind + "|" + op.fault + "|" + what + "|" + how, "fault branch died (" + how + ")");
    return false;
  }

  void delete_all(CallCtx& C, Ctx& ctx, const char* when) {
    for (int t = 0; t < N_HTYPES; ++t) {
      std::vector<void*> v; v.swap(C.pool[(size_t) t]);
      if (!DELETE_FN[t]) continue;
      for (void* p : v) {
        C.handler_calls = 0;
        int r = DELETE_FN[t](p);
        if (r < 0) ctx.violation("C20", "delete-failed", std::string("C|ppl_delete_") + HTYPE_NAMES[t] + "|-|" + when, "deleting a live handle failed with " + std::to_string(r));
      }
    }
  }

  void run(const Plan& plan, Ctx& ctx) override {
    CallCtx C; g_cc = &C; C.ctx = &ctx; C.tops = &tops; C.pool.assign((size_t) N_HTYPES, {});
    C.maxdim = std::max(1L, std::min(4L, plan.knob("maxdim", 2)));
    g_clock = SimClock(); g_clock.active = false; g_step_us = 0;
    seed(C);
    seed_domains(C);
    long idx = -1;
    for (const Op& op : plan.ops) {
      ++idx;
      if (!ctx.viols.empty()) break;
      ctx.begin_op(idx, op);
      auto it = by_name.find(op.kind);
      if (it == by_name.end()) { ctx.stat("capi.unknown_entry_point"); continue; }
      const ThunkDesc* t = it->second;
      ctx.log(op.kind);
      // ---- allocation faults: exhaustively informed branches from the exact pre-state
      if (op.fault == "alloc" || op.fault == "allocs") {
        Shared* sh = ctx.sh;
        bool okc = in_grandchild(ctx, op, "count", [&]() { C.ctx = &ctx; C.arm_mode = 1; Judged j = do_call(C, t, op); long n = C.last_count; C.arm_mode = 0; sh->scratch[0] = n; sh->scratch[1] = j.skipped ? 1 : 0; sh->scratch[2] = j.r; });
        if (okc && sh->scratch[1] == 0 && sh->scratch[0] > 0) {
          long k = op.fk % sh->scratch[0];
          bool sticky = op.fault == "allocs";
          in_grandchild(ctx, op, "faulted", [&]() {
            C.ctx = &ctx;
            ctx.note("faulted call");
            C.arm_mode = 2; C.arm_k = k; C.arm_sticky = sticky; C.last_failed = 0;
            Judged j = do_call(C, t, op);
            long failed = C.last_failed;
            C.arm_mode = 0;
            ctx.stat(failed ? "capi.fault.alloc.fired" : "capi.fault.alloc.not_fired");
            if (failed) {
              ++ctx.faults_fired;
              if (j.r == PPL_ERROR_OUT_OF_MEMORY) ctx.stat("capi.fault.alloc.reported_out_of_memory");
              else if (j.r >= 0) ctx.stat("capi.fault.alloc.absorbed");     // e.g. a nothrow allocation the callee copes with
              else if (j.r == (int) sh->scratch[2] || j.r == PPL_STDIO_ERROR) ctx.stat("capi.fault.alloc.absorbed_by_stream_or_same_error");   // iostreams swallow exceptions raised while formatting (badbit): the call then reports its own error
              else ctx.violation("C20", "wrong-code-for-bad_alloc", "C|" + op.kind + "|" + op.fault + "|" + std::to_string(j.r), "an allocation failure inside the call was reported as " + std::to_string(j.r) + " instead of PPL_ERROR_OUT_OF_MEMORY");
            }
            // every handle that existed is still deletable exactly once, and nothing is lost
            ctx.note("delete all handles");
            delete_all(C, ctx, "after-fault");
            ctx.note("leak check");
            if (lsan_available() && failed) { ctx.stat("capi.leak_checks"); std::string site; if (lsan_leaks_site(site)) ctx.violation("C20", "leak", "C|" + op.kind + "|" + op.fault + "|site=" + site, "memory allocated during a call cut short by an allocation failure is unreachable after every handle was deleted (first non-allocator frame: " + site + ")"); }
          });
        }
      }
      // ---- timeouts: the documented protocol around an expensive call
      if (op.fault == "timeout" || op.fault == "dtimeout") {
        bool det = op.fault == "dtimeout";
        in_grandchild(ctx, op, "timeout", [&]() {
          C.ctx = &ctx;
          int sr;
          if (det) sr = ppl_set_deterministic_timeout((unsigned long) (1 + op.fk % 50), 0);
          else { g_clock.active = true; g_step_us = 3000 + 2000 * (op.fk % 3); sr = ppl_set_timeout((unsigned) (1 + op.fk % 3)); }
          if (sr < 0) { ctx.stat("capi.timeout.set_failed"); return; }
          // variant: the first timeout expires while the client is idle (no computation polls), then a LONG timeout is set
          // without a reset in between: the stale expiry must not make the next call time out
          if (!det && op.fk % 4 == 3) {
            g_clock.advance(200000);                      // 0.2 s of simulated CPU time spent outside the library
            int sr2 = ppl_set_timeout(100000);             // 1000 s
            if (sr2 < 0) { ctx.stat("capi.timeout.set_failed"); return; }
            long d0 = g_clock.deliveries;
            Judged j0 = do_call(C, t, op);
            ctx.stat("capi.timeout.idle_expiry_then_long_timeout");
            if (j0.r == PPL_TIMEOUT_EXCEPTION && g_clock.deliveries == d0) ctx.violation("C20", "timeout-without-expiry", "C|" + op.kind + "|timeout|stale", "PPL_TIMEOUT_EXCEPTION under a timeout of 1000 s that has not expired (an earlier timeout expired while idle and was replaced by ppl_set_timeout)");
            ppl_reset_timeout(); g_clock.active = false; g_step_us = 0;
            delete_all(C, ctx, "after-timeout");
            return;
          }
          long deliveries0 = g_clock.deliveries;
          Judged j = do_call(C, t, op);
          bool fired = det ? (PPL::abandon_expensive_computations != nullptr || j.r == PPL_TIMEOUT_EXCEPTION) : (g_clock.deliveries > deliveries0);
          if (j.r == PPL_TIMEOUT_EXCEPTION) { ++ctx.faults_fired; ctx.stat(det ? "capi.dtimeout.reported" : "capi.timeout.reported");
            if (!det && !fired) ctx.violation("C20", "timeout-without-expiry", "C|" + op.kind + "|timeout", "PPL_TIMEOUT_EXCEPTION although the simulated timer never expired"); }
          int rr = det ? ppl_reset_deterministic_timeout() : ppl_reset_timeout();
          if (rr < 0) ctx.violation("C20", "reset-timeout-failed", "C|" + op.kind + "|" + op.fault, "reset returned " + std::to_string(rr));
          g_clock.active = false; g_step_us = 0;
          // after the documented reset the library is fully usable: the same call must not time out again
          if (j.r == PPL_TIMEOUT_EXCEPTION) {
            Judged j2 = do_call(C, t, op);
            if (j2.r == PPL_TIMEOUT_EXCEPTION) ctx.violation("C20", "timeout-sticks", "C|" + op.kind + "|" + op.fault, "the call times out again after the timeout was reset");
            if (PPL::abandon_expensive_computations != nullptr) ctx.violation("C20", "timeout-sticks", "C|" + op.kind + "|" + op.fault + "|flag", "abandon_expensive_computations still set after reset");
          }
          delete_all(C, ctx, "after-timeout");
        });
      }
      // ---- the call on the main timeline
      Judged j = do_call(C, t, op);
      if (!j.skipped) { ++ctx.ops_done; ctx.log((u64) (j.r + 100)); ctx.state(std::string(j.r >= 0 ? "ok|" : "err|") + t->name); }
      else ctx.stat("capi.skipped_no_handle");
      // keep pools bounded
      for (int ty = 0; ty < N_HTYPES; ++ty) while (C.pool[(size_t) ty].size() > 6 && DELETE_FN[ty]) { void* p = C.pool[(size_t) ty].front(); C.pool[(size_t) ty].erase(C.pool[(size_t) ty].begin()); DELETE_FN[ty](p); }
    }
    Op fin; fin.kind = "teardown"; ctx.begin_op(idx + 1, fin);
    delete_all(C, ctx, "teardown");
    if (lsan_available() && ctx.viols.empty()) { ctx.stat("capi.leak_checks"); FaultPause fp; if (lsan_leaks()) ctx.violation("C20", "leak", "C|teardown|-", "unreachable memory after every handle created during the run was deleted"); }
    ctx.nontrivial = ctx.ops_done >= 8;
    g_cc = nullptr;
  }
};
}  // namespace

int main(int argc, char** argv) { CapiHarness h; return kit_main(argc, argv, h); }
