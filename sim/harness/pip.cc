// Harness `pip` (C07): PIP_Problem under interleavings of solve with the
// incremental mutators and the 3x2 strategy settings.  The solution tree is
// walked through the public node interface exactly as the class documentation
// prescribes, for every parameter assignment of a small box, and compared
// with brute-force enumeration of the lexicographic minimum.
#include "kit/ppl_all.hh"
#include "kit/faults.hh"
#include "kit/runner.hh"
#include <sys/wait.h>
#include <unistd.h>
#include <signal.h>
#include <sstream>
#include <memory>

namespace PPL = Parma_Polyhedra_Library;
using PPL::PIP_Problem; using PPL::Constraint; using PPL::Constraint_System; using PPL::Linear_Expression;
using PPL::Variable; using PPL::Variables_Set; using PPL::Coefficient; using PPL::dimension_type;
using PPL::PIP_Tree_Node; using PPL::PIP_Solution_Node; using PPL::PIP_Decision_Node;

namespace {

const long PBOX = 4;   // parameters range over [0, PBOX]
const long VBOX = 4;   // every variable is constrained to be <= VBOX
const dimension_type MAXD = 5;

struct Row { std::vector<long> a; long b; int rel; };   // a.x + b  rel  0 ; rel 0: ==, 1: >=, 2: >

struct Model {
  dimension_type dim = 0;
  std::set<dimension_type> params;
  std::vector<Row> rows;
};

struct Slot { std::unique_ptr<PIP_Problem> p; Model m; int cut = 0, piv = 0; bool solved_before = false; bool added_after_solve = false; };

typedef std::vector<mpz_class> Vals;

struct Malformed { std::string why; };

mpz_class eval_le(const Linear_Expression& e, const Vals& v, bool allow_var_coeff, const Model& m) {
  mpz_class r(e.inhomogeneous_term());
  for (dimension_type i = 0; i < e.space_dimension(); ++i) {
    const Coefficient& c = e.coefficient(Variable(i));
    if (c == 0) continue;
    if (i >= v.size()) throw Malformed{ "expression refers to dimension " + std::to_string(i) + " but only " + std::to_string(v.size()) + " are defined on this path (undeclared artificial parameter)" };
    if (i < m.dim && !m.params.count(i) && !allow_var_coeff) throw Malformed{ "parametric expression has a non-zero coefficient for a problem variable" };
    r += mpz_class(c) * v[i];
  }
  return r;
}

// Walks the tree for one parameter assignment.  Returns false for bottom.
bool eval_tree(const PIP_Tree_Node* node, Vals vals, const Model& m, std::vector<mpz_class>& out, int depth = 0) {
  if (node == nullptr) return false;
  if (depth > 200) throw Malformed{ "tree deeper than 200 nodes" };
  for (PIP_Tree_Node::Artificial_Parameter_Sequence::const_iterator i = node->art_parameter_begin(); i != node->art_parameter_end(); ++i) {
    mpz_class num = eval_le(*i, vals, false, m), den(i->denominator()), q;
    if (den <= 0) throw Malformed{ "artificial parameter with non-positive denominator" };
    mpz_fdiv_q(q.get_mpz_t(), num.get_mpz_t(), den.get_mpz_t());
    vals.push_back(q);
  }
  bool sat = true;
  const Constraint_System& cs = node->constraints();
  for (Constraint_System::const_iterator c = cs.begin(); c != cs.end(); ++c) {
    mpz_class v(c->inhomogeneous_term());
    for (dimension_type i = 0; i < c->space_dimension(); ++i) {
      const Coefficient& k = c->coefficient(Variable(i));
      if (k == 0) continue;
      if (i >= vals.size()) throw Malformed{ "node constraint refers to an undeclared artificial parameter (dimension " + std::to_string(i) + ")" };
      if (i < m.dim && !m.params.count(i)) throw Malformed{ "node constraint has a non-zero coefficient for a problem variable" };
      v += mpz_class(k) * vals[i];
    }
    bool ok = c->is_equality() ? v == 0 : c->is_strict_inequality() ? v > 0 : v >= 0;
    if (!ok) { sat = false; break; }
  }
  if (const PIP_Decision_Node* d = node->as_decision()) return eval_tree(d->child_node(sat), vals, m, out, depth + 1);
  const PIP_Solution_Node* s = node->as_solution();
  if (s == nullptr) throw Malformed{ "node is neither decision nor solution" };
  if (!sat) return false;
  out.clear();
  for (dimension_type i = 0; i < m.dim; ++i) if (!m.params.count(i)) out.push_back(eval_le(s->parametric_values(Variable(i)), vals, false, m));
  return true;
}

bool row_holds(const Row& r, const Vals& v) {
  mpz_class s = r.b;
  for (size_t i = 0; i < r.a.size() && i < v.size(); ++i) s += r.a[i] * v[i];
  return r.rel == 0 ? s == 0 : r.rel == 1 ? s >= 0 : s > 0;
}

// brute-force lexicographic minimum over [0,VBOX]^n for the given parameter values
bool brute(const Model& m, const Vals& pv, std::vector<mpz_class>& out) {
  std::vector<dimension_type> vars;
  for (dimension_type i = 0; i < m.dim; ++i) if (!m.params.count(i)) vars.push_back(i);
  Vals v = pv;
  std::vector<long> cur(vars.size(), 0);
  while (true) {
    for (size_t k = 0; k < vars.size(); ++k) v[vars[k]] = cur[k];
    bool ok = true;
    for (auto& r : m.rows) if (!row_holds(r, v)) { ok = false; break; }
    if (ok) { out.clear(); for (size_t k = 0; k < vars.size(); ++k) out.push_back(cur[k]); return true; }
    // next in lexicographic order: last variable is least significant
    size_t k = vars.size(); bool advanced = false;
    while (k > 0) { --k; if (++cur[k] <= VBOX) { advanced = true; break; } cur[k] = 0; }
    if (!advanced) return false;
  }
}

std::string show(const std::vector<mpz_class>& v) { std::string s = "("; for (size_t i = 0; i < v.size(); ++i) s += (i ? "," : "") + v[i].get_str(); return s + ")"; }

bool g_expensive = false;   // a solve of this run needed > 50 000 checkpoints: the other strategy settings are not tried
const PIP_Problem::Control_Parameter_Value CUTS[3] = { PIP_Problem::CUTTING_STRATEGY_FIRST, PIP_Problem::CUTTING_STRATEGY_DEEPEST, PIP_Problem::CUTTING_STRATEGY_ALL };
const PIP_Problem::Control_Parameter_Value PIVS[2] = { PIP_Problem::PIVOT_ROW_STRATEGY_FIRST, PIP_Problem::PIVOT_ROW_STRATEGY_MAX_COLUMN };
// Bounded-step liveness.  Measured on the repaired solver (DESIGN.md, C07): the longest legitimate solve of
// these tiny problems took 119 197 checkpoints (nested parametric cuts under CUTTING_STRATEGY_DEEPEST/ALL);
// the budget is ~8 times that.  The two genuine infinite loops found ran at ~650 000 checkpoints per second.
const long STEP_BUDGET = 1000000;

struct PipHarness : Harness {
  const char* name() const override { return "pip"; }
  int child_seconds() const override { return 120; }
  void warmup() override { fault_install_hooks(); }

  Plan generate(Rng& r, const std::string& prop, bool thorough) override {
    Plan p; p.domain = "PIP_Problem";
    bool c14 = prop == "C14";
    p.knobs["vars"] = r.range(1, 3); p.knobs["params"] = r.range(0, 2); p.knobs["pool"] = r.range(1, 2);
    p.knobs["strict"] = r.chance(30);
    p.knobs["allstrat"] = r.chance(50);
    // most plans bound every parameter: with an unbounded parameter context the cutting-plane
    // compatibility check of the library may not terminate (known finding, DESIGN.md)
    p.knobs["pbound"] = r.chance(80);
    long n = r.range(5, thorough ? 24 : 14);
    static const char* kinds[] = { "add_constraint", "add_constraint", "add_constraint", "add_constraints", "solve", "solve", "solve", "is_satisfiable", "set_strategy", "add_dims", "copy", "assign", "dump_load", "clear" };
    for (long i = 0; i < n; ++i) {
      Op op; op.kind = kinds[r.below(sizeof kinds / sizeof *kinds)];
      if (op.kind == "clear" && r.chance(80)) op.kind = "add_constraint";
      // constraints on the parameters alone (they change the context: decision nodes become redundant and are merged)
      if (op.kind == "add_constraint" && p.knobs["params"] > 0 && r.chance(25)) op.kind = "add_param_constraint";
      op.a = { r.range(0, 1), r.range(0, 1), r.range(0, 5) };
      for (int k = 0; k < 2; ++k) { for (dimension_type j = 0; j < MAXD; ++j) op.a.push_back(r.chance(40) ? 0 : r.range(-3, 3)); op.a.push_back(r.range(-4, 4)); op.a.push_back(r.range(0, 5)); }
      if (prop == "C15" && (op.kind == "solve" || op.kind == "is_satisfiable") && r.chance(60)) {   // C15: reload right after a solve (solved trees are what is worth reloading)
        p.ops.push_back(op); Op dl; dl.kind = "dump_load"; dl.a = op.a; op = dl; }
      if (c14 && i >= 2 && r.chance(40)) {
        static const char* fk[] = { "alloc", "alloc", "allocs", "abandon", "abandon", "flag", "weight" };
        op.fault = fk[r.below(sizeof fk / sizeof *fk)]; op.fk = (long) r.below(100000);
      }
      p.ops.push_back(op);
    }
    return p;
  }

  // ---------------------------------------------------------------- C14: fault branches (same scheme as obj_core.hh / mip.cc)
  static std::string fkl(const Op& op, const std::string& extra) { return "PIP_Problem|" + op.kind + "|" + op.fault + (extra.empty() ? "" : "|" + extra); }

  template <class F> bool in_grandchild(Ctx& ctx, const Op& op, const char* what, F body) {
    fflush(stdout); fflush(stderr);
    pid_t g = fork();
    if (g < 0) return false;
    if (g == 0) { kit_cpu_deadline(60); ctx.reset_for_branch(); body(); ctx.flush(false); _exit(0); }
    int st = 0;
    while (waitpid(g, &st, 0) < 0 && errno == EINTR) {}
    if (ctx.sh) ctx.sh->in_branch = 0;
    if (WIFEXITED(st) && WEXITSTATUS(st) == 0) return true;
    std::string how = WIFSIGNALED(st) ? "sig" + std::to_string(WTERMSIG(st)) : "exit" + std::to_string(WEXITSTATUS(st));
    std::string mon = (WIFEXITED(st) && WEXITSTATUS(st) == 77) ? "sanitizer" : (WIFEXITED(st) && WEXITSTATUS(st) == 78) ? "terminate" : "crash";
    ctx.violation("C14", mon + "-in-fault-branch", fkl(op, std::string(what) + "|" + how + "|" + (ctx.sh ? std::string(ctx.sh->note) : "")), "fault branch died (" + how + ") during: " + (ctx.sh ? std::string(ctx.sh->note) : ""));
    return false;
  }
  static Constraint con_of(dimension_type dim, const Op& op, size_t base, bool strict_ok) {
    Linear_Expression e; for (dimension_type j = 0; j < dim; ++j) e += (op.arg(base + j) % 4) * Variable(j);
    e += op.arg(base + MAXD) % 5; long rel = op.mod(base + MAXD + 1, 6);
    return rel == 0 ? (e == 0) : (rel == 1 && strict_ok) ? (e > 0) : (e >= 0);
  }
  static bool faultable(const std::string& k) { return k == "add_constraint" || k == "add_constraints" || k == "solve" || k == "is_satisfiable" || k == "add_dims" || k == "copy" || k == "assign" || k == "dump_load"; }
  static bool logically_const(const std::string& k) { return k == "solve" || k == "is_satisfiable" || k == "copy" || k == "dump_load"; }
  static void lib_call(PIP_Problem& p, PIP_Problem& q, const Op& op, bool strict_ok) {
    const std::string& k = op.kind; dimension_type dim = p.space_dimension();
    if (k == "add_constraint") p.add_constraint(con_of(dim, op, 3, strict_ok));
    else if (k == "add_constraints") { Constraint_System cs; cs.insert(con_of(dim, op, 3, strict_ok)); cs.insert(con_of(dim, op, 3 + MAXD + 2, strict_ok)); p.add_constraints(cs); }
    else if (k == "solve") (void) p.solve();
    else if (k == "is_satisfiable") (void) p.is_satisfiable();
    else if (k == "add_dims") { dimension_type mv = (dimension_type) op.mod(2, 2), mp = (dimension_type) op.mod(3, 2); if (dim + mv + mp > MAXD) return; p.add_space_dimensions_and_embed(mv, mp); }
    else if (k == "copy") { PIP_Problem c(p); (void) c.OK(); }
    else if (k == "assign") q = p;
    else if (k == "dump_load") { std::ostringstream o; p.ascii_dump(o); std::istringstream in(o.str()); PIP_Problem z(0); (void) z.ascii_load(in); }
  }

  void fault_branches(Ctx& ctx, const Op& op, Slot& x, Slot& y, bool strict_ok) {
    Shared* sh = ctx.sh;
    if (!sh || !faultable(op.kind)) return;
    const std::string fk = op.fault;
    bool okc = in_grandchild(ctx, op, "count", [&]() {
      unsigned long long w0 = PPL::Weightwatch_Traits::weight;
      fault_arm_count(); g_fault.ab_at = STEP_BUDGET; bool threw = false;
      ctx.note("count: call");
      try { lib_call(*x.p, *y.p, op, strict_ok); } catch (...) { threw = true; }
      long a = g_fault.count, b = g_fault.ab_count; fault_disarm(); fault_lower_flag();
      sh->scratch[0] = a; sh->scratch[1] = b; sh->scratch[2] = (long) (PPL::Weightwatch_Traits::weight - w0); sh->scratch[3] = threw ? 1 : 0;
    });
    if (!okc || sh->scratch[3]) { ctx.stat("c14.skipped_op_throws_unfaulted"); return; }
    long space = fk == "abandon" ? sh->scratch[1] : fk == "weight" ? sh->scratch[2] : sh->scratch[0];
    if (space <= 0) { ctx.stat("c14.fault_has_no_position." + fk); return; }
    if (sh->scratch[1] > 50000) { ctx.stat("c14.skipped_expensive_solve"); return; }
    long k = op.fk % space;
    in_grandchild(ctx, op, fk.c_str(), [&]() {
      ctx.note("branch: copies");
      PIP_Problem good_x(*x.p), good_y(*y.p);
      std::string outcome = "completed";
      ctx.note(("branch: faulted call " + fk + "@" + std::to_string(k)).c_str());
      {
        typedef PPL::Threshold_Watcher<PPL::Weightwatch_Traits> WW;
        std::unique_ptr<WW> ww;
        if (fk == "weight") { ww.reset(new WW((PPL::Weightwatch_Traits::Delta) (k + 1), PPL::abandon_expensive_computations, g_sim_throwable)); fault_arm_count(); }
        else if (fk == "alloc") fault_arm_alloc(k, false);
        else if (fk == "allocs") fault_arm_alloc(k, true);
        else if (fk == "abandon") fault_arm_abandon(k);
        else fault_arm_flag(k);
        try { lib_call(*x.p, *y.p, op, strict_ok); }
        catch (const std::bad_alloc&) { outcome = "bad_alloc"; }
        catch (const Sim_Abandon&) { outcome = "abandoned"; }
        catch (const std::exception& e) { outcome = std::string("other:") + e.what(); }
        catch (...) { outcome = "other:unknown"; }
        bool fired = g_fault.failed > 0 || g_fault.ab_fired || g_fault.flag_raised || (fk == "weight" && PPL::abandon_expensive_computations != nullptr);
        fault_disarm(); fault_lower_flag();
        if (fired) ++ctx.faults_fired;
        ctx.stat("c14.fault." + fk + "." + (fired ? "fired" : "not_fired"));
        ctx.stat("c14.outcome." + fk + "." + (outcome.compare(0, 6, "other:") == 0 ? "other" : outcome));
        ctx.note("branch: watcher teardown");
      }
      bool expect_alloc = fk == "alloc" || fk == "allocs";
      if (outcome.compare(0, 6, "other:") == 0) ctx.violation("C14", "wrong-exception", fkl(op, outcome.substr(0, 60)), "injected " + fk + " surfaced as " + outcome);
      else if (outcome == "bad_alloc" && !expect_alloc) ctx.violation("C14", "wrong-exception", fkl(op, "bad_alloc"), "bad_alloc without an injected allocation failure");
      else if (outcome == "abandoned" && expect_alloc) ctx.violation("C14", "wrong-exception", fkl(op, "abandoned"), "abandonment without an injected abandonment");
      if (PPL::Weightwatch_Traits::check_function != nullptr) ctx.violation("C14", "global-state", fkl(op, "check_function"), "Weightwatch check_function left installed");
      if (outcome == "completed" || !ctx.viols.empty()) return;
      // direct use: valid object; after a logically const call the problem still has the solution tree of its model
      ctx.note("branch: direct use of the objects that were hit");
      bool ok = false; try { ok = x.p->OK(); } catch (const std::exception&) {}
      ctx.stat("c14.direct_use_checks");
      if (!ok) { ctx.violation("C14", "damaged-not-ok", fkl(op, outcome), "OK() is false for a PIP_Problem involved in a call cut short by " + outcome + " (before any recovery)"); return; }
      if (op.kind == "assign" && &x != &y) { bool oky = false; try { oky = y.p->OK(); } catch (const std::exception&) {} if (!oky) { ctx.violation("C14", "damaged-not-ok", fkl(op, outcome + "|target"), "OK() is false for the target of an assignment cut short by " + outcome); return; } }
      if (logically_const(op.kind)) {
        std::string who = "after-" + outcome;
        int st = solve_budgeted(ctx, op, *x.p, who, false);
        if (st < 0) return;
        size_t before = ctx.viols.size();
        judge_tree(ctx, op, *x.p, x.m, who, st == 0);
        if (ctx.viols.size() > before) { ctx.viols.back().prop = "C14"; ctx.viols.back().monitor = "const-op-changed-problem"; ctx.viols.back().klass = fkl(op, outcome); return; }
      }
      ctx.note("branch: recovery");
      long mode = (op.fk + k) % 3;
      if (mode == 0) { x.p.reset(); x.p.reset(new PIP_Problem(good_x)); } else if (mode == 1) *x.p = good_x; else { PIP_Problem t(good_x); using std::swap; swap(*x.p, t); }
      if (!x.p->OK()) ctx.violation("C14", "recovered-not-ok", fkl(op, mode == 1 ? "assign" : mode == 2 ? "swap" : "recreate"), "PIP_Problem recovered after " + outcome + " fails OK()");
      else {
        int st = solve_budgeted(ctx, op, *x.p, "recovered", false);
        if (st >= 0) { size_t before = ctx.viols.size(); judge_tree(ctx, op, *x.p, x.m, "recovered", st == 0);
          if (ctx.viols.size() > before) { ctx.viols.back().prop = "C14"; ctx.viols.back().monitor = "recovered-differs"; ctx.viols.back().klass = fkl(op, ""); } }
      }
      if (!ctx.viols.empty()) return;
      ctx.note("branch: teardown");
      x.p.reset(); if (&x != &y) y.p.reset();
      { PIP_Problem e1(0); using std::swap; swap(good_x, e1); PIP_Problem e2(0); swap(good_y, e2); }
      ctx.stat("c14.leak_checks");
      std::string site;
      if (lsan_leaks_site(site)) ctx.violation("C14", "leak", fkl(op, "site=" + site), "memory allocated during a call cut short by " + outcome + " is unreachable after every problem was destroyed (first non-allocator frame: " + site + ")");
    });
  }

  static std::string kl(const Op& op, const std::string& extra) { return "PIP_Problem|" + op.kind + "|-|" + extra; }

  static void bound_param(Slot& s, dimension_type v) {
    Row r; r.a.assign(s.m.dim, 0); r.a[v] = -1; r.b = PBOX; r.rel = 1; s.m.rows.push_back(r);
    s.p->add_constraint(Variable(v) <= PBOX);
  }

  static void bound_var(Slot& s, dimension_type v) {
    Row r; r.a.assign(s.m.dim, 0); r.a[v] = -1; r.b = VBOX; r.rel = 1; s.m.rows.push_back(r);
    s.p->add_constraint(Variable(v) <= VBOX);
  }

  static void add_row(Slot& s, const Op& op, size_t base, bool strict_ok, bool params_only = false) {
    Row r; r.a.assign(s.m.dim, 0); Linear_Expression e;
    for (dimension_type j = 0; j < s.m.dim; ++j) { long a = op.arg(base + j) % 4; if (params_only && !s.m.params.count(j)) a = 0; r.a[j] = a; e += a * Variable(j); }
    r.b = op.arg(base + MAXD) % 5; e += r.b;
    long rel = op.mod(base + MAXD + 1, 6);
    r.rel = rel == 0 ? 0 : (rel == 1 && strict_ok) ? 2 : 1;
    s.p->add_constraint(r.rel == 0 ? (e == 0) : r.rel == 2 ? (e > 0) : (e >= 0));
    s.m.rows.push_back(r);
    if (s.solved_before) s.added_after_solve = true;
  }

  // compares one solved problem with the brute-force reference for every parameter assignment of the box
  bool judge_tree(Ctx& ctx, const Op& op, const PIP_Problem& p, const Model& m, const std::string& who, bool unfeasible_status) {
    std::vector<dimension_type> ps(m.params.begin(), m.params.end());
    Vals pv(m.dim, 0);
    std::vector<long> cur(ps.size(), 0);
    const PIP_Tree_Node* root = p.solution();
    if (unfeasible_status != (root == nullptr)) { ctx.violation("C07", "status-vs-tree", kl(op, who), "status and solution() disagree about unfeasibility"); return false; }
    long checked = 0;
    while (true) {
      for (size_t k = 0; k < ps.size(); ++k) pv[ps[k]] = cur[k];
      // context: rows that mention parameters only
      bool in_ctx = true;
      for (auto& r : m.rows) { bool ponly = true; for (dimension_type i = 0; i < m.dim; ++i) if (r.a[i] != 0 && !m.params.count(i)) ponly = false; if (ponly && !row_holds(r, pv)) { in_ctx = false; break; } }
      if (in_ctx) {
        std::vector<mpz_class> want, got; bool bw = brute(m, pv, want), bg;
        try { bg = eval_tree(root, pv, m, got); }
        catch (const Malformed& mf) { ctx.violation("C07", "malformed-tree", kl(op, who), mf.why); return false; }
        ++checked;
        std::string at = "parameters " + show(Vals(cur.begin(), cur.end()));
        if (bw && !bg) { ctx.violation("C07", "wrong-bottom", kl(op, who + (unfeasible_status ? "|status-unfeasible" : "|tree")), at + ": tree gives bottom but " + show(want) + " is the lexicographic minimum"); return false; }
        if (!bw && bg) { ctx.violation("C07", "solution-for-empty-region", kl(op, who), at + ": tree gives " + show(got) + " but the region has no non-negative integer point"); return false; }
        if (bw && bg && want != got) { ctx.violation("C07", "not-lexmin", kl(op, who), at + ": tree gives " + show(got) + " but the lexicographic minimum is " + show(want)); return false; }
      }
      size_t k = 0;
      for (; k < ps.size(); ++k) { if (++cur[k] <= PBOX) break; cur[k] = 0; }
      if (k == ps.size()) break;
    }
    ctx.stat("pip.assignments_checked", checked);
    return true;
  }

  // text of every node printed on its own (not only from the root); only for problems that are already solved
  static void node_texts(const PIP_Tree_Node* n, std::ostringstream& o, int depth) {
    if (n == nullptr || depth > 60) { o << "<bottom>\n"; return; }
    o << "[node]\n"; n->print(o);
    if (const PPL::PIP_Decision_Node* d = n->as_decision()) { node_texts(d->child_node(true), o, depth + 1); node_texts(d->child_node(false), o, depth + 1); }
  }
  static std::string tree_text(const PIP_Problem* p) {
    std::ostringstream d; p->ascii_dump(d);
    if (d.str().find("status: OPTIMIZED") == std::string::npos) return "";
    std::ostringstream o; node_texts(p->solution(), o, 0); return o.str();
  }

  // solve with a checkpoint budget: bounded-step liveness
  static int solve_budgeted(Ctx& ctx, const Op& op, PIP_Problem& p, const std::string& who, bool sat_only) {
    fault_arm_abandon(STEP_BUDGET);
    int st = -1;
    try { if (sat_only) st = p.is_satisfiable() ? 1 : 0; else st = p.solve() == PPL::UNFEASIBLE_PIP_PROBLEM ? 0 : 1; }
    catch (const Sim_Abandon&) { fault_disarm(); fault_lower_flag(); ctx.violation("C07", "liveness", kl(op, who), "solve() did not return within " + std::to_string(STEP_BUDGET) + " maybe_abandon() checkpoints"); return -1; }
    ctx.stat("pip.checkpoints", g_fault.ab_count);
    if (g_fault.ab_count > 50000) { ctx.stat("pip.expensive_solves"); g_expensive = true; }
    fault_disarm();
    return st;
  }

  void judge_solve(Ctx& ctx, const Op& op, Slot& s, bool sat_only) {
    std::string who = std::string(s.added_after_solve ? "incremental" : "first-solve") + "|cut" + std::to_string(s.cut) + "|piv" + std::to_string(s.piv)
      + (ctx.plan->knob("pbound", 0) ? "|pb1" : "|pb0");
    ctx.note(("@" + who).c_str());
    int st = solve_budgeted(ctx, op, *s.p, who, sat_only);
    if (st < 0) return;
    ctx.log((u64) st);
    ctx.stat(st ? "pip.solve.optimized" : "pip.solve.unfeasible");
    if (!s.p->OK()) { ctx.violation("C07", "ok", kl(op, who), "OK() false after solve"); return; }
    if (!judge_tree(ctx, op, *s.p, s.m, who, st == 0)) return;
    s.solved_before = true;
    // fresh problems from the object's own getters, under the strategy settings
    bool all = ctx.plan->knob("allstrat", 0) != 0;
    for (int c = 0; c < 3; ++c) for (int pv = 0; pv < 2; ++pv) {
      if ((!all || g_expensive) && !(c == s.cut && pv == s.piv)) continue;
      std::string fw = "fresh|cut" + std::to_string(c) + "|piv" + std::to_string(pv) + (ctx.plan->knob("pbound", 0) ? "|pb1" : "|pb0");
      ctx.note(("@" + fw).c_str());
      PIP_Problem f(s.p->space_dimension(), s.p->constraints_begin(), s.p->constraints_end(), s.p->parameter_space_dimensions());
      f.set_control_parameter(CUTS[c]); f.set_control_parameter(PIVS[pv]);
      int fs = solve_budgeted(ctx, op, f, fw, false);
      if (fs < 0) return;
      if (!judge_tree(ctx, op, f, s.m, fw, fs == 0)) return;
      ctx.stat("pip.fresh_twins");
    }
    ctx.note("@done");
  }

  void run(const Plan& plan, Ctx& ctx) override {
    int pool = (int) std::max(1L, std::min(2L, plan.knob("pool", 1)));
    dimension_type nv = (dimension_type) std::max(1L, std::min(3L, plan.knob("vars", 1))), np = (dimension_type) std::max(0L, std::min(2L, plan.knob("params", 0)));
    bool strict_ok = plan.knob("strict", 0) != 0;
    g_expensive = false;
    std::vector<Slot> S((size_t) pool);
    for (auto& s : S) {
      s.m.dim = nv + np;
      Variables_Set ps; for (dimension_type i = nv; i < nv + np; ++i) { ps.insert(Variable(i)); s.m.params.insert(i); }
      Constraint_System none;
      s.p.reset(new PIP_Problem(nv + np, none.begin(), none.end(), ps));
      for (dimension_type v = 0; v < nv; ++v) bound_var(s, v);
      if (plan.knob("pbound", 0)) for (dimension_type v = nv; v < nv + np; ++v) bound_param(s, v);
    }
    long idx = -1;
    for (const Op& op : plan.ops) {
      ++idx;
      if (!ctx.viols.empty()) break;
      ctx.begin_op(idx, op);
      Slot& x = S[(size_t) op.mod(0, pool)]; Slot& y = S[(size_t) op.mod(1, pool)];
      const std::string& k = op.kind;
      ctx.log(k);
      ctx.state(k + "|solved" + std::to_string(x.solved_before) + "|inc" + std::to_string(x.added_after_solve) + "|c" + std::to_string(x.cut) + "p" + std::to_string(x.piv) + "|rows" + std::to_string(std::min<size_t>(x.m.rows.size(), 8)));
      if (!op.fault.empty() && plan.prop == "C14") fault_branches(ctx, op, x, y, strict_ok);
      if (!ctx.viols.empty()) break;
      try {
        if (k == "add_constraint") add_row(x, op, 3, strict_ok);
        else if (k == "add_param_constraint") { add_row(x, op, 3, strict_ok, true); if (x.solved_before) x.added_after_solve = true; }
        else if (k == "add_constraints") { add_row(x, op, 3, strict_ok); add_row(x, op, 3 + MAXD + 2, strict_ok); }
        else if (k == "set_strategy") { x.cut = (int) op.mod(2, 3); x.piv = (int) op.mod(3, 2); x.p->set_control_parameter(CUTS[x.cut]); x.p->set_control_parameter(PIVS[x.piv]); }
        else if (k == "add_dims") { dimension_type mv = (dimension_type) op.mod(2, 2), mp = (dimension_type) op.mod(3, 2); if (x.m.dim + mv + mp > MAXD || mv + mp == 0) continue;
          x.p->add_space_dimensions_and_embed(mv, mp);
          dimension_type old = x.m.dim; x.m.dim += mv + mp; for (auto& r : x.m.rows) r.a.resize(x.m.dim, 0);
          for (dimension_type i = old + mv; i < x.m.dim; ++i) x.m.params.insert(i);
          for (dimension_type i = old; i < old + mv; ++i) bound_var(x, i);
          if (plan.knob("pbound", 0)) for (dimension_type i = old + mv; i < x.m.dim; ++i) bound_param(x, i);
          if (x.solved_before) x.added_after_solve = true; }
        else if (k == "solve") judge_solve(ctx, op, x, false);
        else if (k == "is_satisfiable") judge_solve(ctx, op, x, true);
        else if (k == "copy") { if (&x == &y) continue; y.p.reset(new PIP_Problem(*x.p)); y.m = x.m; y.cut = x.cut; y.piv = x.piv; y.solved_before = x.solved_before; y.added_after_solve = x.added_after_solve; }
        else if (k == "assign") { *y.p = *x.p; y.m = x.m; y.cut = x.cut; y.piv = x.piv; y.solved_before = x.solved_before; y.added_after_solve = x.added_after_solve; }
        else if (k == "clear") { x.p->clear(); x.m = Model(); x.solved_before = x.added_after_solve = false; x.cut = x.piv = 0; }
        else if (k == "dump_load") { std::ostringstream o; x.p->ascii_dump(o); std::istringstream in(o.str()); std::unique_ptr<PIP_Problem> z(new PIP_Problem(op.mod(2, 3)));
          if (!z->ascii_load(in)) { ctx.violation("C15", "load-fails", kl(op, ""), "PIP_Problem::ascii_load failed on its own dump"); continue; }
          std::ostringstream o2; z->ascii_dump(o2);
          if (o2.str() != o.str()) { ctx.violation("C15", "redump", kl(op, ""), "PIP_Problem re-dump differs"); continue; }
          if (!z->OK()) { ctx.violation("C15", "load-ok", kl(op, ""), "loaded PIP_Problem fails OK()"); continue; }
          // every node of the loaded solution tree presents itself like the corresponding node of the original
          // (print() of an inner node numbers its artificial parameters by walking up the parent links)
          { std::string t0 = tree_text(x.p.get()), t1 = tree_text(z.get());
            if (t0 != t1) { ctx.violation("C15", "tree-nodes-differ", kl(op, ""), "a node of the loaded solution tree prints differently from the same node of the original"); continue; } }
          x.p = std::move(z); ctx.stat("pip.reloaded"); }
        else continue;
      }
      catch (const std::invalid_argument&) { ctx.stat("pip.rejected"); continue; }
      catch (const std::exception& e) { ctx.violation("C07", "unexpected-exception", kl(op, typeid(e).name()), e.what()); break; }
      ++ctx.ops_done;
      if (!x.p->OK()) { ctx.violation("C07", "ok", kl(op, "after-op"), "OK() false after " + k); break; }
    }
    ctx.nontrivial = ctx.ops_done >= 4 && ctx.stats.count("pip.assignments_checked");
  }
};
}  // namespace

int main(int argc, char** argv) { PipHarness h; return kit_main(argc, argv, h); }
