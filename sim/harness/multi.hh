// Several domain instantiations behind one harness binary.
#ifndef MULTI_HH
#define MULTI_HH
#include "kit/runner.hh"
struct MultiHarness : Harness {
  std::string hname;
  std::vector<Harness*> subs;
  std::vector<std::string> doms;
  explicit MultiHarness(const char* n) : hname(n) {}
  void add(Harness* h, const std::string& dom) { subs.push_back(h); doms.push_back(dom); }
  const char* name() const override { return hname.c_str(); }
  void warmup() override { for (auto* h : subs) h->warmup(); }
  int child_seconds() const override { return subs[0]->child_seconds(); }
  std::vector<std::pair<std::string, long> > shrink_knobs() const override { return subs[0]->shrink_knobs(); }
  Plan generate(Rng& r, const std::string& prop, bool thorough) override {
    size_t i = r.below(subs.size());
    Plan p = subs[i]->generate(r, prop, thorough);
    p.domain = doms[i];
    return p;
  }
  void run(const Plan& plan, Ctx& ctx) override {
    for (size_t i = 0; i < subs.size(); ++i) if (doms[i] == plan.domain) { subs[i]->run(plan, ctx); return; }
    ctx.violation(plan.prop, "internal", "unknown-domain", plan.domain);
  }
};
#endif
