// obj harness instantiated for grids.
#include "obj_ops.hh"
#include "multi.hh"
namespace obj {
template <> struct Dom<PPL::Grid> { static constexpr Kind kind = GRID; static constexpr bool nnc = false, oct = false; static const char* name() { return "Grid"; } };
}
int main(int argc, char** argv) {
  obj::ObjHarness<obj::PPL::Grid> g("obj_grid");
  obj::add_common_ops(g);
  MultiHarness m("obj_grid");
  m.add(&g, "Grid");
  return kit_main(argc, argv, m);
}
