// obj harness instantiated for pointset powersets (C09; also C13 C14 C15).
// Operation closures carry the pointwise definition checks of C09: the
// membership of every probe point in the result must be what the base-level
// definition dictates for the union of the disjuncts.
#include "obj_ops.hh"
#include "multi.hh"

namespace obj {
typedef PPL::Pointset_Powerset<PPL::C_Polyhedron> PC;
typedef PPL::Pointset_Powerset<PPL::NNC_Polyhedron> PN;
typedef PPL::Pointset_Powerset<PPL::Grid> PG;
template <> struct Dom<PPL::C_Polyhedron> { static constexpr Kind kind = POLY; static constexpr bool nnc = false, oct = false; static const char* name() { return "C_Polyhedron"; } };
template <> struct Dom<PPL::NNC_Polyhedron> { static constexpr Kind kind = POLY; static constexpr bool nnc = true, oct = false; static const char* name() { return "NNC_Polyhedron"; } };
template <> struct Dom<PPL::Grid> { static constexpr Kind kind = GRID; static constexpr bool nnc = false, oct = false; static const char* name() { return "Grid"; } };
template <> struct Dom<PC> { static constexpr Kind kind = PSET; static constexpr bool nnc = false, oct = false; typedef PPL::C_Polyhedron base_type; static const char* name() { return "Powerset_C_Polyhedron"; } };
template <> struct Dom<PN> { static constexpr Kind kind = PSET; static constexpr bool nnc = true, oct = false; typedef PPL::NNC_Polyhedron base_type; static const char* name() { return "Powerset_NNC_Polyhedron"; } };
template <> struct Dom<PG> { static constexpr Kind kind = PSET; static constexpr bool nnc = false, oct = false; typedef PPL::Grid base_type; static const char* name() { return "Powerset_Grid"; } };

template <class PS> Bits bits_of(const PS& x) { if (!g_def.probes) return Bits(); return fingerprint(x, *g_def.probes).bits; }
inline bool subset(const Bits& a, const Bits& b) { return bits_subset(a, b); }
inline void expect_bits(const char* what, dimension_type dim, const Bits& post, const Bits& want) { def_expect_eq(what, dim, post, want); }
inline void expect_between(const char* what, dimension_type dim, const Bits& lower, const Bits& post, const Bits& upper) { def_expect_between(what, dim, lower, post, upper); }

template <class PS> size_t disjuncts(const PS& x) { PS c(x); size_t n = 0; const PS& cc = c; for (typename PS::const_iterator i = cc.begin(); i != cc.end(); ++i) ++n; return n; }

template <class PS> void add_pset_ops(ObjHarness<PS>& H) {
  typedef PS D;
  typedef typename Dom<PS>::base_type B;
  typedef ObjHarness<PS> HH;
  constexpr bool grid = Dom<B>::kind == GRID;
  constexpr bool nnc = Dom<PS>::nnc;
  // ------------------------------------------------------------ building the union
  H.add({ "add_disjunct", 1, F_VAL | F_FAULT, 10,
    GENF { op.a.push_back(r.range(0, 5)); op.a.push_back(r.range(0, 4)); for (int k = 0; k < 4; ++k) { op.a.push_back(r.range(0, 5)); gen_expr(r, op, W, false); op.a.push_back(r.range(1, 4)); } },
    PREPF { D* x = e.o[0]; std::shared_ptr<B> d(ObjHarness<B>::construct_dim((int) x->space_dimension(), c).release());
            return [x, d]() { Bits pre = bits_of(*x); x->add_disjunct(*d);
              if (g_def.active) { FaultPause fp; Bits post = bits_of(*x), want = pre; B dc(*d); auto& v = g_def.probes->of(x->space_dimension());
                for (size_t i = 0; i < want.size() && i < v.size(); ++i) want[i] = want[i] || member_of(dc, v[i]);
                expect_bits("add_disjunct", x->space_dimension(), post, want); }
              return std::string(); }; } });
  if constexpr (!grid) {
    H.add({ "add_constraint", 1, F_VAL | F_FAULT, 8,
      GENF { op.a.push_back(r.range(0, 5)); gen_expr(r, op, W, false); },
      PREPF { D* x = e.o[0]; Constraint k = HH::make_constraint(c, x->space_dimension(), nnc, false);
              return [x, k]() { Bits pre = bits_of(*x); x->add_constraint(k);
                if (g_def.active) { FaultPause fp; Bits post = bits_of(*x), want = pre; auto& v = g_def.probes->of(x->space_dimension());
                  for (size_t i = 0; i < want.size() && i < v.size(); ++i) want[i] = want[i] && oracle::sat(k, v[i]);
                  expect_bits("add_constraint", x->space_dimension(), post, want); }
                return std::string(); }; } });
    H.add({ "add_constraints", 1, F_VAL | F_FAULT, 4,
      GENF { for (int k = 0; k < 2; ++k) { op.a.push_back(r.range(0, 5)); gen_expr(r, op, W, false); } },
      PREPF { D* x = e.o[0]; Constraint_System cs; for (int k = 0; k < 2; ++k) cs.insert(HH::make_constraint(c, x->space_dimension(), nnc, false));
              return [x, cs]() { Bits pre = bits_of(*x); x->add_constraints(cs);
                if (g_def.active) { FaultPause fp; Bits post = bits_of(*x), want = pre; auto& v = g_def.probes->of(x->space_dimension());
                  for (size_t i = 0; i < want.size() && i < v.size(); ++i) want[i] = want[i] && oracle::sat_all(cs, v[i]);
                  expect_bits("add_constraints", x->space_dimension(), post, want); }
                return std::string(); }; } });
  }
  H.add({ "refine_with_constraint", 1, F_VAL | F_FAULT, 5,
    GENF { op.a.push_back(r.range(0, 5)); gen_expr(r, op, W, false); },
    PREPF { D* x = e.o[0]; Constraint k = HH::make_constraint(c, x->space_dimension(), true, false);
            return [x, k]() { Bits pre = bits_of(*x); x->refine_with_constraint(k);
              if (g_def.active) { FaultPause fp; Bits post = bits_of(*x), lower = pre; auto& v = g_def.probes->of(x->space_dimension());
                for (size_t i = 0; i < lower.size() && i < v.size(); ++i) lower[i] = lower[i] && oracle::sat(k, v[i]);
                // refinement may be imprecise (grids, strict constraints on closed polyhedra) but never loses a point of the meet nor gains one
                bool exact = !grid && (nnc || !k.is_strict_inequality());
                if (exact) expect_bits("refine_with_constraint", x->space_dimension(), post, lower); else expect_between("refine_with_constraint", x->space_dimension(), lower, post, pre); }
              return std::string(); }; } });
  H.add({ "refine_with_congruence", 1, F_VAL | F_FAULT, grid ? 8 : 3,
    GENF { gen_expr(r, op, W, false); op.a.push_back(r.chance(40) ? 0 : r.range(0, 6)); },
    PREPF { D* x = e.o[0]; Congruence k = HH::make_congruence(c, x->space_dimension());
            return [x, k]() { Bits pre = bits_of(*x); x->refine_with_congruence(k);
              if (g_def.active) { FaultPause fp; Bits post = bits_of(*x), lower = pre; auto& v = g_def.probes->of(x->space_dimension());
                for (size_t i = 0; i < lower.size() && i < v.size(); ++i) lower[i] = lower[i] && oracle::sat(k, v[i]);
                if (grid || k.is_equality()) expect_bits("refine_with_congruence", x->space_dimension(), post, lower); else expect_between("refine_with_congruence", x->space_dimension(), lower, post, pre); }
              return std::string(); }; } });
  // ------------------------------------------------------------ lattice operations on unions
  H.add({ "intersection_assign", 2, F_VAL | F_FAULT | F_SAMEDIM, 8, NOGEN,
    PREPF { D* x = e.o[0]; const D* y = e.o[1];
            return [x, y]() { Bits px = bits_of(*x), py = bits_of(*y); x->intersection_assign(*y);
              if (g_def.active) { Bits want = px; for (size_t i = 0; i < want.size() && i < py.size(); ++i) want[i] = px[i] && py[i]; expect_bits("meet", x->space_dimension(), bits_of(*x), want); }
              return std::string(); }; } });
  H.add({ "upper_bound_assign", 2, F_VAL | F_FAULT | F_SAMEDIM, 8, NOGEN,
    PREPF { D* x = e.o[0]; const D* y = e.o[1];
            return [x, y]() { Bits px = bits_of(*x), py = bits_of(*y); x->upper_bound_assign(*y);
              if (g_def.active) { Bits want = px; for (size_t i = 0; i < want.size() && i < py.size(); ++i) want[i] = px[i] || py[i]; expect_bits("upper_bound", x->space_dimension(), bits_of(*x), want); }
              return std::string(); }; } });
  H.add({ "difference_assign", 2, F_VAL | F_FAULT | F_SAMEDIM, 6, NOGEN,
    PREPF { D* x = e.o[0]; const D* y = e.o[1];
            return [x, y]() { Bits px = bits_of(*x), py = bits_of(*y); x->difference_assign(*y);
              if (g_def.active) { Bits want = px; for (size_t i = 0; i < want.size() && i < py.size(); ++i) want[i] = px[i] && !py[i];
                // exact set difference needs open faces: NNC disjuncts; closed polyhedra and grids give the smallest cover inside x
                if (nnc && !grid) expect_bits("difference", x->space_dimension(), bits_of(*x), want); else expect_between("difference", x->space_dimension(), want, bits_of(*x), px); }
              return std::string(); }; } });
  H.add({ "concatenate_assign", 2, F_VAL | F_FAULT, 2, NOGEN,
    PREPF { D* x = e.o[0]; const D* y = e.o[1]; if (x->space_dimension() + y->space_dimension() > 4) return skip_call();
            return [x, y]() { std::shared_ptr<D> bx, by; if (g_def.active) { FaultPause fp; bx.reset(new D(*x)); by.reset(new D(*y)); }
              dimension_type n = x->space_dimension(), m = y->space_dimension(); x->concatenate_assign(*y);
              if (g_def.active) { FaultPause fp; D post(*x); auto& v = g_def.probes->of(n + m);
                for (size_t i = 0; i < v.size(); ++i) { QPoint a(v[i].begin(), v[i].begin() + (long) n), b(v[i].begin() + (long) n, v[i].end());
                  bool want = member_of(*bx, a) && member_of(*by, b);
                  if (member_of(post, v[i]) != want) { def_violation("def-concatenate", "point " + oracle::show(v[i]) + (want ? " is lost" : " is gained")); break; } } }
              return std::string(); }; } });
  H.add({ "time_elapse_assign", 2, F_VAL | F_FAULT | F_SAMEDIM, 2, NOGEN,
    PREPF { D* x = e.o[0]; const D* y = e.o[1]; return [x, y]() { x->time_elapse_assign(*y); return std::string(); }; } });
  // ------------------------------------------------------------ reductions: the union must not change
  H.add({ "omega_reduce", 1, F_OBS | F_FAULT, 6, NOGEN,
    PREPF { D* x = e.o[0]; return [x]() { x->omega_reduce(); return std::string(); }; } });
  H.add({ "pairwise_reduce", 1, F_VAL | F_FAULT, 5, NOGEN,
    PREPF { D* x = e.o[0]; return [x]() { Bits pre = bits_of(*x); size_t n0 = g_def.active ? disjuncts(*x) : 0; x->pairwise_reduce();
              if (g_def.active) { expect_bits("pairwise_reduce", x->space_dimension(), bits_of(*x), pre); FaultPause fp; if (disjuncts(*x) > n0) def_violation("pairwise-reduce-grows", "pairwise_reduce increased the number of disjuncts"); }
              return std::string(); }; } });
  H.add({ "collapse", 1, F_VAL | F_FAULT, 3, NOGEN,
    PREPF { D* x = e.o[0]; return [x]() { Bits pre = bits_of(*x); std::shared_ptr<B> hull;
              if (g_def.active) { FaultPause fp; D c(*x); const D& cc = c; for (typename D::const_iterator i = cc.begin(); i != cc.end(); ++i) { if (!hull) hull.reset(new B(i->pointset())); else hull->upper_bound_assign(i->pointset()); } }
              x->collapse();
              if (g_def.active) { FaultPause fp; Bits post = bits_of(*x); if (!subset(pre, post)) def_violation("collapse-loses", "collapse lost a point of the union");
                if (disjuncts(*x) > 1) def_violation("collapse-size", "more than one disjunct after collapse");
                if (hull) { D want(x->space_dimension(), PPL::EMPTY); want.add_disjunct(*hull); if (!same_value(*x, want)) def_violation("collapse-value", "collapse is not the base-level upper bound of the disjuncts"); } }
              return std::string(); }; } });
  H.add({ "size_and_iterate", 1, F_OBS | F_ANS | F_SYNT | F_FAULT, 6, NOGEN,
    PREPF { D* x = e.o[0]; return [x]() { size_t n = x->size(), k = 0; const D& cx = *x; for (typename D::const_iterator i = cx.begin(); i != cx.end(); ++i) ++k;
              if (k != n && g_def.active) def_violation("size-vs-iteration", "size() " + std::to_string(n) + " but iteration visits " + std::to_string(k));
              return std::to_string(n); }; } });
  H.add({ "simplify_using_context_assign", 2, F_ANS | F_FAULT | F_SAMEDIM, 4, NOGEN,
    PREPF { D* x = e.o[0]; const D* y = e.o[1];
            return [x, y]() { Bits px = bits_of(*x), py = bits_of(*y); size_t n0 = g_def.active ? disjuncts(*x) : 0; bool aliased = (x == y);
              bool b = x->simplify_using_context_assign(*y);
              if (g_def.active && !aliased) { FaultPause fp; Bits post = bits_of(*x);
                for (size_t i = 0; i < post.size() && i < py.size(); ++i) if (py[i] && post[i] != px[i]) { def_violation("simplify-changes-meet", "point " + probe_str(x->space_dimension(), i) + " of the context " + (px[i] ? "is lost" : "is gained")); break; }
                if (disjuncts(*x) > n0) def_violation("simplify-grows", "simplification increased the number of disjuncts from " + std::to_string(n0)); }
              return b2s(b); }; } });
  // ------------------------------------------------------------ affine transformers
  H.add({ "affine_preimage", 1, F_VAL | F_FAULT, 5,
    GENF { op.a.push_back(r.range(0, 5)); gen_expr(r, op, W, false); op.a.push_back(r.chance(3) ? 0 : r.range(-3, 3)); },
    PREPF { D* x = e.o[0]; dimension_type n = x->space_dimension(); if (n == 0) return skip_call();
            Variable v((dimension_type) c.mod((long) n)); Linear_Expression le = c.expr(n); Coefficient den = coef(c.next());
            return [x, v, le, den, n]() { std::shared_ptr<D> before; if (g_def.active) { FaultPause fp; before.reset(new D(*x)); }
              x->affine_preimage(v, le, den);
              if (g_def.active && den != 0) { FaultPause fp; D post(*x); auto& pv = g_def.probes->of(n);
                for (size_t i = 0; i < pv.size(); ++i) { QPoint q = pv[i]; mpq_class val(le.inhomogeneous_term());
                  for (dimension_type j = 0; j < n; ++j) val += mpq_class(le.coefficient(Variable(j))) * pv[i][j];
                  val /= mpq_class(den); val.canonicalize(); q[v.id()] = val;
                  bool want = member_of(*before, q);
                  if (member_of(post, pv[i]) != want) { def_violation("def-affine_preimage", "point " + oracle::show(pv[i]) + (want ? " is lost" : " is gained")); break; } } }
              return std::string(); }; } });
  H.add({ "affine_image", 1, F_VAL | F_FAULT, 5,
    GENF { op.a.push_back(r.range(0, 5)); gen_expr(r, op, W, false); op.a.push_back(r.chance(3) ? 0 : r.range(-3, 3)); },
    PREPF { D* x = e.o[0]; dimension_type n = x->space_dimension(); if (n == 0) return skip_call();
            Variable v((dimension_type) c.mod((long) n)); Linear_Expression le = c.expr(n); Coefficient den = coef(c.next());
            return [x, v, le, den, n]() { std::shared_ptr<D> before; if (g_def.active) { FaultPause fp; before.reset(new D(*x)); }
              x->affine_image(v, le, den);
              mpq_class a(le.coefficient(v));
              if (g_def.active && a != 0 && den != 0) { FaultPause fp; D post(*x); auto& pv = g_def.probes->of(n);   // invertible: p is in the image iff f^-1(p) was in the set
                for (size_t i = 0; i < pv.size(); ++i) { QPoint q = pv[i]; mpq_class rest(le.inhomogeneous_term());
                  for (dimension_type j = 0; j < n; ++j) if (j != v.id()) rest += mpq_class(le.coefficient(Variable(j))) * pv[i][j];
                  mpq_class val = (mpq_class(den) * pv[i][v.id()] - rest) / a; val.canonicalize(); q[v.id()] = val;
                  bool want = member_of(*before, q);
                  if (member_of(post, pv[i]) != want) { def_violation("def-affine_image", "point " + oracle::show(pv[i]) + (want ? " is lost" : " is gained")); break; } } }
              return std::string(); }; } });
  H.add({ "unconstrain", 1, F_VAL | F_FAULT, 2,
    GENF { op.a.push_back(r.range(0, 5)); },
    PREPF { D* x = e.o[0]; dimension_type n = x->space_dimension(); if (n == 0) return skip_call();
            Variable v((dimension_type) c.mod((long) n)); return [x, v]() { Bits pre = bits_of(*x); x->unconstrain(v); if (g_def.active && !subset(pre, bits_of(*x))) def_violation("def-unconstrain", "unconstrain lost a point"); return std::string(); }; } });
  H.add({ "topological_closure_assign", 1, F_VAL | F_FAULT, 2, NOGEN,
    PREPF { D* x = e.o[0]; return [x]() { Bits pre = bits_of(*x); x->topological_closure_assign(); if (g_def.active && !subset(pre, bits_of(*x))) def_violation("def-closure", "closure lost a point"); return std::string(); }; } });
  // ------------------------------------------------------------ dimensions
  H.add({ "add_space_dimensions_and_embed", 1, F_VAL | F_FAULT, 2,
    GENF { op.a.push_back(r.range(0, 2)); },
    PREPF { D* x = e.o[0]; dimension_type m = (dimension_type) c.mod(3); if (x->space_dimension() + m > 4) return skip_call();
            return [x, m]() { std::shared_ptr<D> before; dimension_type n = x->space_dimension(); if (g_def.active) { FaultPause fp; before.reset(new D(*x)); }
              x->add_space_dimensions_and_embed(m);
              if (g_def.active) { FaultPause fp; D post(*x); auto& pv = g_def.probes->of(n + m);
                for (size_t i = 0; i < pv.size(); ++i) { QPoint a(pv[i].begin(), pv[i].begin() + (long) n); bool want = member_of(*before, a);
                  if (member_of(post, pv[i]) != want) { def_violation("def-embed", "point " + oracle::show(pv[i]) + (want ? " is lost" : " is gained")); break; } } }
              return std::string(); }; } });
  H.add({ "add_space_dimensions_and_project", 1, F_VAL | F_FAULT, 2,
    GENF { op.a.push_back(r.range(0, 2)); },
    PREPF { D* x = e.o[0]; dimension_type m = (dimension_type) c.mod(3); if (x->space_dimension() + m > 4) return skip_call();
            return [x, m]() { x->add_space_dimensions_and_project(m); return std::string(); }; } });
  H.add({ "remove_space_dimensions", 1, F_VAL | F_FAULT, 2,
    GENF { op.a.push_back(r.range(0, 15)); },
    PREPF { D* x = e.o[0]; dimension_type n = x->space_dimension(); long mask = c.mod(16); Variables_Set vs;
            for (dimension_type i = 0; i < n; ++i) if (mask & (1L << i)) vs.insert(Variable(i));
            return [x, vs]() { x->remove_space_dimensions(vs); return std::string(); }; } });
  H.add({ "remove_higher_space_dimensions", 1, F_VAL | F_FAULT, 1,
    GENF { op.a.push_back(r.range(0, 4)); },
    PREPF { D* x = e.o[0]; dimension_type k = (dimension_type) c.mod((long) x->space_dimension() + 1); return [x, k]() { x->remove_higher_space_dimensions(k); return std::string(); }; } });
  // ------------------------------------------------------------ predicates
  H.add({ "geometrically_covers", 2, F_OBS | F_ANS | F_FAULT | F_SAMEDIM, 5, NOGEN,
    PREPF { D* x = e.o[0]; const D* y = e.o[1]; if (!geometric_compare_affordable(*x, *y)) return skip_call(); return [x, y]() { bool b = x->geometrically_covers(*y);
              if (g_def.active && b && !subset(bits_of(*y), bits_of(*x))) def_violation("covers-unsound", "geometrically_covers is true but a point of the argument is not in the receiver");
              return b2s(b); }; } });
  H.add({ "geometrically_equals", 2, F_OBS | F_ANS | F_FAULT | F_SAMEDIM, 4, NOGEN,
    PREPF { D* x = e.o[0]; const D* y = e.o[1]; if (!geometric_compare_affordable(*x, *y)) return skip_call(); return [x, y]() { bool b = x->geometrically_equals(*y);
              if (g_def.active && b && bits_of(*y) != bits_of(*x)) def_violation("equals-unsound", "geometrically_equals is true but the unions differ on a probe point");
              return b2s(b); }; } });
  H.add({ "contains", 2, F_OBS | F_FAULT | F_SAMEDIM, 4, NOGEN,
    PREPF { D* x = e.o[0]; const D* y = e.o[1]; return [x, y]() { bool b = x->contains(*y);
              if (g_def.active && b && !subset(bits_of(*y), bits_of(*x))) def_violation("contains-unsound", "contains() is true but geometric containment fails on a probe point");
              return b2s(b); }; } });
  H.add({ "strictly_contains", 2, F_OBS | F_FAULT | F_SAMEDIM, 2, NOGEN,
    PREPF { D* x = e.o[0]; const D* y = e.o[1]; return [x, y]() { bool b = x->strictly_contains(*y);
              if (g_def.active && b && !subset(bits_of(*y), bits_of(*x))) def_violation("contains-unsound", "strictly_contains() is true but geometric containment fails on a probe point");
              return b2s(b); }; } });
  H.add({ "definitely_entails", 2, F_OBS | F_FAULT | F_SAMEDIM, 3, NOGEN,
    PREPF { D* x = e.o[0]; const D* y = e.o[1]; return [x, y]() { bool b = x->definitely_entails(*y);
              if (g_def.active && b && !subset(bits_of(*x), bits_of(*y))) def_violation("entails-unsound", "definitely_entails() is true but geometric containment fails on a probe point");
              return b2s(b); }; } });
  H.add({ "is_disjoint_from", 2, F_OBS | F_ANS | F_FAULT | F_SAMEDIM, 3, NOGEN,
    PREPF { D* x = e.o[0]; const D* y = e.o[1]; return [x, y]() { bool b = x->is_disjoint_from(*y);
              if (g_def.active && b) { Bits a = bits_of(*x), c2 = bits_of(*y); for (size_t i = 0; i < a.size() && i < c2.size(); ++i) if (a[i] && c2[i]) { def_violation("disjoint-unsound", "is_disjoint_from is true but a probe point lies in both"); break; } }
              return b2s(b); }; } });
  H.add({ "equals", 2, F_OBS | F_FAULT, 3, NOGEN,
    PREPF { D* x = e.o[0]; const D* y = e.o[1]; return [x, y]() { bool b = (*x == *y);
              if (g_def.active && b && x->space_dimension() == y->space_dimension() && bits_of(*y) != bits_of(*x)) def_violation("equals-unsound", "operator== is true but the unions differ on a probe point");
              return b2s(b); }; } });
  H.add({ "is_empty", 1, F_OBS | F_ANS | F_FAULT, 4, NOGEN, PREPF { D* x = e.o[0]; return [x]() { bool b = x->is_empty();
              if (g_def.active && b) { Bits a = bits_of(*x); for (bool q : a) if (q) { def_violation("empty-unsound", "is_empty is true but a probe point is in the union"); break; } }
              return b2s(b); }; } });
  H.add({ "is_universe", 1, F_OBS | F_ANS | F_FAULT, 2, NOGEN, PREPF { D* x = e.o[0]; return [x]() { bool b = x->is_universe();
              if (g_def.active && b) { Bits a = bits_of(*x); for (bool q : a) if (!q) { def_violation("universe-unsound", "is_universe is true but a probe point is outside"); break; } }
              return b2s(b); }; } });
  H.add({ "is_bounded", 1, F_OBS | F_ANS | F_FAULT, 2, NOGEN, PREPF { D* x = e.o[0]; return [x]() { return b2s(x->is_bounded()); }; } });
  H.add({ "is_topologically_closed", 1, F_OBS | F_ANS | F_FAULT, 2, NOGEN, PREPF { D* x = e.o[0]; return [x]() { return b2s(x->is_topologically_closed()); }; } });
  H.add({ "affine_dimension", 1, F_OBS | F_ANS | F_FAULT, 2, NOGEN, PREPF { D* x = e.o[0]; return [x]() { return std::to_string(x->affine_dimension()); }; } });
  H.add({ "bounds_from_above", 1, F_OBS | F_ANS | F_FAULT, 2,
    GENF { gen_expr(r, op, W, false); },
    PREPF { D* x = e.o[0]; Linear_Expression le = c.expr(x->space_dimension()); return [x, le]() { return b2s(x->bounds_from_above(le)); }; } });
  H.add({ "maximize", 1, F_OBS | F_ANS | F_FAULT, 3,
    GENF { gen_expr(r, op, W, false); },
    PREPF { D* x = e.o[0]; Linear_Expression le = c.expr(x->space_dimension());
            return [x, le]() { Coefficient n, d; bool mx; bool b = x->maximize(le, n, d, mx); FaultPause fp; if (!b) return std::string("F");
                               mpq_class q(n, d); q.canonicalize(); return "T:" + q.get_str() + ":" + b2s(mx); }; } });
  H.add({ "relation_with_constraint", 1, F_OBS | F_ANS | F_FAULT, 3,
    GENF { op.a.push_back(r.range(0, 5)); gen_expr(r, op, W, false); },
    PREPF { D* x = e.o[0]; Constraint k = HH::make_constraint(c, x->space_dimension(), nnc, false);
            return [x, k]() { return rel_str(x->relation_with(k)); }; } });
  H.add({ "memory_and_hash", 1, F_OBS, 1, NOGEN,
    PREPF { D* x = e.o[0]; return [x]() { (void) x->total_memory_in_bytes(); (void) x->external_memory_in_bytes(); (void) x->hash_code(); return std::string(); }; } });
  H.finish();
}
}  // namespace obj

int main(int argc, char** argv) {
  obj::ObjHarness<obj::PC> c("obj_pset");
  obj::ObjHarness<obj::PN> n("obj_pset");
  obj::ObjHarness<obj::PG> g("obj_pset");
  obj::add_pset_ops(c); obj::add_pset_ops(n); obj::add_pset_ops(g);
  MultiHarness m("obj_pset");
  m.add(&c, "Powerset_C_Polyhedron"); m.add(&n, "Powerset_NNC_Polyhedron"); m.add(&g, "Powerset_Grid");
  return kit_main(argc, argv, m);
}
