#include "oracle/exact_lp.hh"
// Operation tables for the "simple" semantic domains (polyhedra, BD shapes,
// octagons, boxes, grids): the common interface of doc/definitions.dox.
#ifndef OBJ_OPS_HH
#define OBJ_OPS_HH
#include "obj_core.hh"

namespace obj {

#define GENF [](Rng& r, Op& op, int W)
#define PREPF [](Env<D>& e, Cur& c) -> std::function<std::string()>
#define NOGEN [](Rng&, Op&, int) {}
static inline std::function<std::string()> skip_call() { return []() { return std::string("skip"); }; }

inline PPL::Relation_Symbol relsym(long v) {
  switch (((v % 5) + 5) % 5) {
  case 0: return PPL::LESS_THAN;
  case 1: return PPL::LESS_OR_EQUAL;
  case 2: return PPL::EQUAL;
  case 3: return PPL::GREATER_OR_EQUAL;
  default: return PPL::GREATER_THAN;
  }
}
template <class R> inline std::string rel_str(const R& r) { FaultPause fp; std::ostringstream o; r.ascii_dump(o); return o.str(); }

const dimension_type MAXDIM = 6;

// "Best" results of the weakly relational domains: the smallest BD shape / octagon / box containing a set S has, in every
// template direction d of the domain (+-x_i; x_i - x_j for BD shapes; also +-(x_i + x_j) for octagons), exactly sup_S(d).
// For the upper bound S = x U y, so sup_R(d) must equal max(sup_x(d), sup_y(d)).  Suprema are read with maximize() on
// private copies (itself checked against the exact LP oracle below).
struct SupV { bool empty = false, unbounded = false, attained = true; mpq_class v; };
template <class D> inline SupV sup_of(const D& x, const Linear_Expression& le) {
  D c(x); SupV r; if (c.is_empty()) { r.empty = true; return r; }
  Coefficient n, d; bool mx; if (!c.maximize(le, n, d, mx)) { r.unbounded = true; return r; }
  r.v = mpq_class(n, d); r.v.canonicalize(); r.attained = mx; return r;
}
template <class D> inline std::vector<Linear_Expression> template_directions(dimension_type dim) {
  std::vector<Linear_Expression> v;
  for (dimension_type i = 0; i < dim; ++i) { v.push_back(Linear_Expression(Variable(i))); v.push_back(-Linear_Expression(Variable(i))); }
  if constexpr (Dom<D>::kind == SHAPE) {
    for (dimension_type i = 0; i < dim; ++i) for (dimension_type j = 0; j < dim; ++j) if (i != j) {
      v.push_back(Variable(i) - Variable(j));
      if (Dom<D>::oct && i < j) { v.push_back(Variable(i) + Variable(j)); v.push_back(-Linear_Expression(Variable(i)) - Variable(j)); } }
  }
  return v;
}
// returns a description of the first direction in which `r' is not the best shape containing x U y ("" if best)
template <class D> inline std::string not_best_join(const D& r, const D& x, const D& y) {
  dimension_type dim = r.space_dimension();
  for (const Linear_Expression& d : template_directions<D>(dim)) {
    SupV sr = sup_of(r, d), sx = sup_of(x, d), sy = sup_of(y, d);
    if (sx.empty && sy.empty) { if (!sr.empty) return "the join of two empty elements is not empty"; return ""; }
    bool want_unb = (!sx.empty && sx.unbounded) || (!sy.empty && sy.unbounded);
    if (sr.empty) return "the join is empty although an argument is not";
    if (want_unb) { if (!sr.unbounded) return "a direction unbounded in an argument is bounded in the join"; continue; }
    mpq_class want; bool have = false;
    if (!sx.empty) { want = sx.v; have = true; }
    if (!sy.empty && (!have || sy.v > want)) { want = sy.v; have = true; }
    if (sr.unbounded) { using PPL::IO_Operators::operator<<; std::ostringstream o; o << d; return "direction " + o.str() + " is unbounded in the join but bounded by " + want.get_str() + " in both arguments"; }
    if (sr.v != want) { using PPL::IO_Operators::operator<<; std::ostringstream o; o << d; return "direction " + o.str() + ": supremum " + sr.v.get_str() + " in the join, " + want.get_str() + " over the union of the arguments"; }
  }
  return "";
}

// same, against a closed polyhedron S (constructors from another domain): exact = every template supremum agrees;
// sound = no template supremum of the result is smaller
template <class D> inline std::string not_best_wrt_polyhedron(const D& r, const PPL::C_Polyhedron& S, bool must_be_best) {
  dimension_type dim = r.space_dimension();
  { PPL::C_Polyhedron c(S); D rc(r); bool se = c.is_empty(), re = rc.is_empty(); if (se) return (re || !must_be_best) ? "" : "the source is empty, the result is not"; if (re) return "the result is empty, the source is not"; }
  for (const Linear_Expression& d : template_directions<D>(dim)) {
    SupV sr = sup_of(r, d), ss = sup_of(S, d);
    using PPL::IO_Operators::operator<<; std::ostringstream o; o << d;
    if (ss.unbounded) { if (!sr.unbounded) return "direction " + o.str() + " is unbounded in the source but bounded in the result (unsound)"; continue; }
    if (sr.unbounded) { if (must_be_best) return "direction " + o.str() + " is bounded by " + ss.v.get_str() + " in the source but unbounded in the result (not the smallest element)"; continue; }
    if (sr.v < ss.v) return "direction " + o.str() + ": supremum " + sr.v.get_str() + " in the result is below " + ss.v.get_str() + " in the source (unsound)";
    if (must_be_best && sr.v != ss.v) return "direction " + o.str() + ": supremum " + sr.v.get_str() + " in the result, " + ss.v.get_str() + " in the source (not the smallest element)";
  }
  return "";
}

// Independent oracle for Box::upper_bound_assign_if_exact: the union of two non-empty boxes is a box iff one contains
// the other, or they differ in exactly one dimension and the two intervals there overlap or are adjacent (same
// finite value, at most one of the facing boundaries open).  Intervals are read through has_lower/upper_bound.
struct OIv { bool lo_inf = true, hi_inf = true, lo_closed = false, hi_closed = false; mpq_class lo, hi; };
template <class B> inline std::vector<OIv> box_intervals(const B& b) {
  std::vector<OIv> v(b.space_dimension());
  for (dimension_type k = 0; k < b.space_dimension(); ++k) { Coefficient n, d; bool cl;
    if (b.has_lower_bound(Variable(k), n, d, cl)) { v[k].lo_inf = false; v[k].lo = mpq_class(n, d); v[k].lo.canonicalize(); v[k].lo_closed = cl; }
    if (b.has_upper_bound(Variable(k), n, d, cl)) { v[k].hi_inf = false; v[k].hi = mpq_class(n, d); v[k].hi.canonicalize(); v[k].hi_closed = cl; } }
  return v;
}
inline bool oiv_lo_le(const OIv& a, const OIv& b) { if (a.lo_inf) return true; if (b.lo_inf) return false; if (a.lo != b.lo) return a.lo < b.lo; return a.lo_closed || !b.lo_closed; }   // a's lower boundary admits everything b's does
inline bool oiv_hi_ge(const OIv& a, const OIv& b) { if (a.hi_inf) return true; if (b.hi_inf) return false; if (a.hi != b.hi) return a.hi > b.hi; return a.hi_closed || !b.hi_closed; }
inline bool oiv_contains(const OIv& a, const OIv& b) { return oiv_lo_le(a, b) && oiv_hi_ge(a, b); }
inline bool oiv_gap(const OIv& left, const OIv& right) {      // is there a hole between `left' (below) and `right' (above)?
  if (left.hi_inf || right.lo_inf) return false;
  if (left.hi < right.lo) return true;
  if (left.hi > right.lo) return false;
  return !left.hi_closed && !right.lo_closed;
}
template <class B> inline bool box_union_is_box(const B& a, const B& b) {
  std::vector<OIv> x = box_intervals(a), y = box_intervals(b);
  bool a_in_b = true, b_in_a = true; size_t differing = 0, kd = 0;
  for (size_t k = 0; k < x.size(); ++k) { bool c1 = oiv_contains(y[k], x[k]), c2 = oiv_contains(x[k], y[k]); a_in_b = a_in_b && c1; b_in_a = b_in_a && c2; if (!(c1 && c2)) { ++differing; kd = k; } }
  if (a_in_b || b_in_a) return true;
  if (differing != 1) return false;
  return !oiv_gap(x[kd], y[kd]) && !oiv_gap(y[kd], x[kd]);
}

// Soundness of the relational transformers on probe points: candidate values for the transformed variable are tried
// (the bounds themselves, a midpoint, neighbours, the old value); every witness found must be in the result.
inline std::vector<mpq_class> cand_values(const mpq_class& L, const mpq_class& U, const mpq_class& old) {
  std::vector<mpq_class> v = { L, U, (L + U) / 2, old, L - 1, U + 1, L + mpq_class(1, 2), U - mpq_class(1, 2) };
  for (auto& q : v) q.canonicalize();
  return v;
}
inline bool rel_holds(PPL::Relation_Symbol rs, const mpq_class& a, const mpq_class& b) {
  switch (rs) { case PPL::LESS_THAN: return a < b; case PPL::LESS_OR_EQUAL: return a <= b; case PPL::EQUAL: return a == b; case PPL::GREATER_OR_EQUAL: return a >= b; case PPL::GREATER_THAN: return a > b; default: return false; }
}
// image: for q in pre and v' with cond(q, v'): q[var := v'] must be in post
template <class D, class COND> inline void must_contain_image(const char* what, const D& pre, const D& post, dimension_type var, COND cond) {
  dimension_type n = post.space_dimension(); auto& pv = g_def.probes->of(n); D a(pre), b(post);
  for (size_t i = 0; i < pv.size(); ++i) { if (!member_of(a, pv[i])) continue;
    for (const mpq_class& v : cond.candidates(pv[i])) { if (!cond.ok(pv[i], v)) continue; QPoint q = pv[i]; q[var] = v;
      if (!member_of(b, q)) { def_violation(what, "point " + oracle::show(q) + " is the image of member " + oracle::show(pv[i]) + " but is not in the result"); return; } } }
}
// preimage: for p and v' with cond(p, v') and p[var := v'] in pre: p must be in post
template <class D, class COND> inline void must_contain_preimage(const char* what, const D& pre, const D& post, dimension_type var, COND cond) {
  dimension_type n = post.space_dimension(); auto& pv = g_def.probes->of(n); D a(pre), b(post);
  for (size_t i = 0; i < pv.size(); ++i) {
    for (const mpq_class& v : cond.candidates(pv[i])) { if (!cond.ok(pv[i], v)) continue; QPoint q = pv[i]; q[var] = v; if (!member_of(a, q)) continue;
      if (!member_of(b, pv[i])) { def_violation(what, "point " + oracle::show(pv[i]) + " is related to member " + oracle::show(q) + " but is not in the result"); return; }
      break; } }
}
struct BoundedCond { Linear_Expression lb, ub; mpq_class den; dimension_type var;
  std::vector<mpq_class> candidates(const QPoint& p) const { return cand_values(eval_le(lb, p) / den, eval_le(ub, p) / den, p[var]); }
  bool ok(const QPoint& p, const mpq_class& v) const { mpq_class L = eval_le(lb, p) / den, U = eval_le(ub, p) / den; return L <= v && v <= U; } };
struct GeneralizedCond { Linear_Expression le; mpq_class den; PPL::Relation_Symbol rs; dimension_type var;
  std::vector<mpq_class> candidates(const QPoint& p) const { mpq_class E = eval_le(le, p) / den; return cand_values(E, E, p[var]); }
  bool ok(const QPoint& p, const mpq_class& v) const { return rel_holds(rs, v, eval_le(le, p) / den); } };

// Call-site discriminator of known finding F40: Octagonal_Shape::refine(var, >=, expr, d) (reached from
// generalized_affine_preimage(var, >=, expr, d) and bounded_affine_preimage when var does not occur in the lower bound)
// records v + u <= c instead of u - v <= c exactly when expr is not a single +/-1 term, exactly one term u is unbounded
// in the direction needed to bound expr from below, u has coefficient d and a larger index than var.
template <class D> inline bool oct_refine_ge_callsite(const D& pre, dimension_type var, const Linear_Expression& expr, const Coefficient& den) {
  if constexpr (!Dom<D>::oct) return false;
  else {
    if (den == 0 || expr.space_dimension() > pre.space_dimension()) return false;
    if (var < expr.space_dimension() && expr.coefficient(Variable(var)) != 0) return false;
    D a(pre); if (a.is_empty()) return false;
    dimension_type terms = 0, unbounded = 0, which = 0; bool unit = true;
    for (dimension_type i = 0; i < expr.space_dimension(); ++i) { Coefficient ci = expr.coefficient(Variable(i)); if (ci == 0) continue;
      ++terms; if (ci != den && ci != -den) unit = false;
      bool positive = (sgn(ci) * sgn(den)) > 0;     // a lower bound of expr/den needs a lower bound of u (positive) or an upper bound (negative)
      bool bounded = positive ? a.bounds_from_below(Linear_Expression(Variable(i))) : a.bounds_from_above(Linear_Expression(Variable(i)));
      if (!bounded) { ++unbounded; which = i; } }
    if (terms == 0 || (terms == 1 && unit)) return false;
    return unbounded == 1 && which > var && expr.coefficient(Variable(which)) == den;
  }
}
struct DefSuffix { DefSuffix(bool on, const char* s) { if (on) g_def.suffix = s; } ~DefSuffix() { g_def.suffix.clear(); } };
inline PPL::Relation_Symbol flip_rel(PPL::Relation_Symbol rs) {
  switch (rs) { case PPL::LESS_THAN: return PPL::GREATER_THAN; case PPL::LESS_OR_EQUAL: return PPL::GREATER_OR_EQUAL; case PPL::GREATER_OR_EQUAL: return PPL::LESS_OR_EQUAL; case PPL::GREATER_THAN: return PPL::LESS_THAN; default: return rs; }
}
// lhs == a*v + b with a != 0 and no other variable: the relation lhs' rs rhs is v' rs' (rhs - b)/a
inline bool single_variable_lhs(const Linear_Expression& lhs, dimension_type& var, Coefficient& a) {
  dimension_type cnt = 0; for (dimension_type i = 0; i < lhs.space_dimension(); ++i) if (lhs.coefficient(Variable(i)) != 0) { ++cnt; var = i; a = lhs.coefficient(Variable(i)); }
  return cnt == 1;
}

// Relations with a left hand side of two or more variables: lhs(x') rs rhs(x), x' = x outside the variables of lhs.
// Witnesses: one variable of lhs is shifted, another one is solved so that lhs(x') hits a target value related to rhs(x).
inline std::vector<dimension_type> vars_of(const Linear_Expression& e) { std::vector<dimension_type> v; for (dimension_type i = 0; i < e.space_dimension(); ++i) if (e.coefficient(Variable(i)) != 0) v.push_back(i); return v; }
inline mpq_class lr_target(PPL::Relation_Symbol rs, const mpq_class& r) { return rs == PPL::LESS_THAN ? mpq_class(r - 1) : rs == PPL::GREATER_THAN ? mpq_class(r + 1) : r; }
inline bool lr_witness(const Linear_Expression& lhs, const QPoint& base, dimension_type i, dimension_type j, long delta, const mpq_class& target, QPoint& out) {
  out = base; out[i] += delta; mpq_class rest = eval_le(lhs, out) - mpq_class(lhs.coefficient(Variable(j))) * out[j];
  mpq_class v = (target - rest) / mpq_class(lhs.coefficient(Variable(j))); v.canonicalize(); out[j] = v; return true;
}
template <class D> inline void lr_image_check(const char* what, const D& pre, const D& post, const Linear_Expression& lhs, PPL::Relation_Symbol rs, const Linear_Expression& rhs) {
  std::vector<dimension_type> V = vars_of(lhs); if (V.size() < 2) return;
  dimension_type n = post.space_dimension(); auto& pv = g_def.probes->of(n); D a(pre), b(post); static const long deltas[] = { 0, -3, 2 };
  for (size_t k = 0; k < pv.size(); ++k) { if (!member_of(a, pv[k])) continue; mpq_class t = lr_target(rs, eval_le(rhs, pv[k]));
    for (dimension_type i : V) for (dimension_type j : V) { if (i == j) continue; for (long d : deltas) { QPoint q; lr_witness(lhs, pv[k], i, j, d, t, q);
      if (!member_of(b, q)) { def_violation(what, "point " + oracle::show(q) + " is an image of member " + oracle::show(pv[k]) + " but is not in the result"); return; } } } }
}
template <class D> inline void lr_preimage_check(const char* what, const D& pre, const D& post, const Linear_Expression& lhs, PPL::Relation_Symbol rs, const Linear_Expression& rhs) {
  std::vector<dimension_type> V = vars_of(lhs); if (V.size() < 2) return;
  dimension_type n = post.space_dimension(); auto& pv = g_def.probes->of(n); D a(pre), b(post); static const long deltas[] = { 0, -3, 2 };
  for (size_t k = 0; k < pv.size(); ++k) { mpq_class t = lr_target(rs, eval_le(rhs, pv[k])); bool in_post = member_of(b, pv[k]); if (in_post) continue;
    for (dimension_type i : V) for (dimension_type j : V) { if (i == j) continue; for (long d : deltas) { QPoint q; lr_witness(lhs, pv[k], i, j, d, t, q);
      if (member_of(a, q)) { def_violation(what, "point " + oracle::show(pv[k]) + " is related to member " + oracle::show(q) + " but is not in the result"); return; } } } }
}

// domains over floating point numbers round differently along different code paths: agreement between overloads is
// not required of them (specialised to true in obj_float.cc)
template <class D, bool IS_MAX> inline std::function<std::string()> with_point_call(Env<D>& e, Cur& c) {
  D* x = e.o[0]; Linear_Expression le = c.expr(x->space_dimension());
  return [x, le]() { Coefficient n1, d1, n2, d2; bool m1 = false, m2 = false; Generator g = Generator::point();
    bool b1, b2;
    { D c1(*x); b1 = IS_MAX ? c1.maximize(le, n1, d1, m1) : c1.minimize(le, n1, d1, m1); }
    b2 = IS_MAX ? x->maximize(le, n2, d2, m2, g) : x->minimize(le, n2, d2, m2, g);
    FaultPause fp;
    const char* nm = IS_MAX ? "maximize" : "minimize";
    if (!Inexact<D>::value && (b1 != b2 || (b1 && (n1 * d2 != n2 * d1 || m1 != m2)))) { if (g_def.ctx) g_def.ctx->violation(g_def.prop.empty() ? "C01" : g_def.prop, "with-point-differs", g_def.dom + "|" + nm + "_with_point|-", std::string(nm) + " with and without the point argument disagree"); return std::string("?"); }
    if (!b2) return std::string("F");
    mpq_class q(n2, d2); q.canonicalize();
    // (products return the optimising point of ONE component, which need not lie in the other: only the value is judged there)
    if (m2 && g_def.active && Dom<D>::kind != PROD) {
      if (!g.is_point()) def_violation("with-point-not-a-point", "the returned generator is not a point");
      else { QPoint p = oracle::vec_of(g, x->space_dimension(), true); D cpy(*x);
        if (!member_of(cpy, p)) def_violation("with-point-not-member", std::string("the point ") + oracle::show(p) + " returned by " + nm + " is not a member of the set");
        else { mpq_class ev = eval_le(le, p); if (ev != q) def_violation("with-point-wrong-value", std::string("the expression evaluates to ") + ev.get_str() + " at the returned point, the reported optimum is " + q.get_str()); } } }
    return "T:" + q.get_str() + ":" + b2s(m2); };
}

// Independent oracle for the optimisation queries of the closed, constraint-based domains (C polyhedra, BD shapes,
// octagons, closed boxes): an exact rational simplex (oracle/exact_lp.hh, ~120 lines, self-tested) on the constraints
// of a private copy.  Returns false when the oracle does not apply (strict inequalities, grids, containers).
template <class D> inline bool lp_oracle_check(const D& x, const Linear_Expression& le, bool maximize, bool answered, const mpq_class& q, bool attained, std::string& why) {
  D cpy(x);
  Constraint_System cs = cpy.constraints();
  dimension_type n = cpy.space_dimension();
  std::vector<oracle::LPRow> rows;
  for (Constraint_System::const_iterator i = cs.begin(); i != cs.end(); ++i) {
    if (i->is_strict_inequality()) return false;
    oracle::LPRow r; r.a.assign(n, 0);
    for (dimension_type j = 0; j < n && j < i->space_dimension(); ++j) r.a[j] = mpq_class(i->coefficient(Variable(j)));
    r.b = -mpq_class(i->inhomogeneous_term()); r.rel = i->is_equality() ? 0 : 1;
    rows.push_back(r);
  }
  std::vector<mpq_class> c(n, 0);
  for (dimension_type j = 0; j < n && j < le.space_dimension(); ++j) c[j] = mpq_class(le.coefficient(Variable(j)));
  oracle::LPResult r = oracle::lp_solve(n, rows, c, maximize);
  if (r.status != oracle::LP_OPTIMAL) {
    if (answered) { why = std::string("the library reports the optimum ") + q.get_str() + " but the exact LP on the object's own constraints is " + (r.status == oracle::LP_INFEASIBLE ? "infeasible" : "unbounded"); return true; }
    return true;
  }
  mpq_class want = r.value + mpq_class(le.inhomogeneous_term()); want.canonicalize();
  if (!answered) { why = "the library reports no optimum (empty or unbounded) but the exact LP on the object's own constraints has the optimum " + want.get_str(); return true; }
  if (want != q) { why = "the library reports the optimum " + q.get_str() + ", the exact LP on the object's own constraints " + want.get_str(); return true; }
  if (!attained) { why = "the optimum of a closed set is reported as not attained"; return true; }
  return true;
}

template <class D> void add_common_ops(ObjHarness<D>& H) {
  typedef ObjHarness<D> HH;
  constexpr Kind K = Dom<D>::kind;
  // where the documentation promises the exact set (otherwise only soundness is judged)
  constexpr bool EXACT_ADD = (K == POLY || K == SHAPE || K == BOX);
  constexpr bool EXACT_AFFINE = (K == POLY || K == GRID);
  (void) EXACT_ADD; (void) EXACT_AFFINE;
  // ---------------------------------------------------------------- adding information
  if constexpr (K != GRID) {
    H.add({ "add_constraint", 1, F_VAL | F_FAULT, 10,
      GENF { op.a.push_back(r.range(0, 5)); gen_expr(r, op, W, false); },
      PREPF { D* x = e.o[0]; Constraint k = HH::make_constraint(c, x->space_dimension(), HH::allow_strict(), true);
              return [x, k]() { Bits pre = defbits(*x); x->add_constraint(k);
                if (g_def.active) { FaultPause fp; Bits lower = pre; auto& v = g_def.probes->of(x->space_dimension()); for (size_t i = 0; i < lower.size() && i < v.size(); ++i) lower[i] = lower[i] && oracle::sat(k, v[i]);
                  if (EXACT_ADD) def_expect_eq("add_constraint", x->space_dimension(), defbits(*x), lower); else def_expect_between("add_constraint", x->space_dimension(), lower, defbits(*x), pre); }
                return std::string(); }; } });
    H.add({ "add_constraints", 1, F_VAL | F_FAULT, 6,
      GENF { op.a.push_back(r.range(0, 2)); for (int k = 0; k < 3; ++k) { op.a.push_back(r.range(0, 5)); gen_expr(r, op, W, false); } },
      PREPF { D* x = e.o[0]; Constraint_System cs; long n = 1 + c.mod(3);
              for (long k = 0; k < n; ++k) cs.insert(HH::make_constraint(c, x->space_dimension(), HH::allow_strict(), true));
              return [x, cs]() { Bits pre = defbits(*x); x->add_constraints(cs);
                if (g_def.active) { FaultPause fp; Bits lower = pre; auto& v = g_def.probes->of(x->space_dimension()); for (size_t i = 0; i < lower.size() && i < v.size(); ++i) lower[i] = lower[i] && oracle::sat_all(cs, v[i]);
                  if (EXACT_ADD) def_expect_eq("add_constraints", x->space_dimension(), defbits(*x), lower); else def_expect_between("add_constraints", x->space_dimension(), lower, defbits(*x), pre); }
                return std::string(); }; } });
    H.add({ "add_recycled_constraints", 1, F_VAL | F_FAULT, 2,
      GENF { for (int k = 0; k < 2; ++k) { op.a.push_back(r.range(0, 5)); gen_expr(r, op, W, false); } },
      PREPF { D* x = e.o[0]; std::shared_ptr<Constraint_System> cs(new Constraint_System);
              for (long k = 0; k < 2; ++k) cs->insert(HH::make_constraint(c, x->space_dimension(), HH::allow_strict(), true));
              return [x, cs]() { x->add_recycled_constraints(*cs); return std::string(); }; } });
  }
  H.add({ "refine_with_constraint", 1, F_VAL | F_FAULT, 6,
    GENF { op.a.push_back(r.range(0, 5)); gen_expr(r, op, W, false); },
    PREPF { D* x = e.o[0]; Constraint k = HH::make_constraint(c, x->space_dimension(), true, false);
            return [x, k]() { Bits pre = defbits(*x); x->refine_with_constraint(k);
              if (g_def.active) { FaultPause fp; Bits lower = pre; auto& v = g_def.probes->of(x->space_dimension()); for (size_t i = 0; i < lower.size() && i < v.size(); ++i) lower[i] = lower[i] && oracle::sat(k, v[i]);
                bool exact = (K == POLY) && (Dom<D>::nnc || !k.is_strict_inequality());
                if (exact) def_expect_eq("refine_with_constraint", x->space_dimension(), defbits(*x), lower); else def_expect_between("refine_with_constraint", x->space_dimension(), lower, defbits(*x), pre); }
              return std::string(); }; } });
  H.add({ "refine_with_constraints", 1, F_VAL | F_FAULT, 3,
    GENF { for (int k = 0; k < 2; ++k) { op.a.push_back(r.range(0, 5)); gen_expr(r, op, W, false); } },
    PREPF { D* x = e.o[0]; Constraint_System cs; for (long k = 0; k < 2; ++k) cs.insert(HH::make_constraint(c, x->space_dimension(), true, false));
            return [x, cs]() { Bits pre = defbits(*x); x->refine_with_constraints(cs);
              if (g_def.active) { FaultPause fp; Bits lower = pre; auto& v = g_def.probes->of(x->space_dimension()); for (size_t i = 0; i < lower.size() && i < v.size(); ++i) lower[i] = lower[i] && oracle::sat_all(cs, v[i]);
                def_expect_between("refine_with_constraints", x->space_dimension(), lower, defbits(*x), pre); }
              return std::string(); }; } });
  H.add({ "refine_with_congruence", 1, F_VAL | F_FAULT, 3,
    GENF { gen_expr(r, op, W, false); op.a.push_back(r.range(0, 6)); },
    PREPF { D* x = e.o[0]; Congruence k = HH::make_congruence(c, x->space_dimension());
            return [x, k]() { Bits pre = defbits(*x); x->refine_with_congruence(k);
              if (g_def.active) { FaultPause fp; Bits lower = pre; auto& v = g_def.probes->of(x->space_dimension()); for (size_t i = 0; i < lower.size() && i < v.size(); ++i) lower[i] = lower[i] && oracle::sat(k, v[i]);
                if (K == GRID || (K == POLY && k.is_equality())) def_expect_eq("refine_with_congruence", x->space_dimension(), defbits(*x), lower); else def_expect_between("refine_with_congruence", x->space_dimension(), lower, defbits(*x), pre); }
              return std::string(); }; } });
  H.add({ "add_congruence", 1, F_VAL | F_FAULT, K == GRID ? 10 : 2,
    GENF { gen_expr(r, op, W, false); op.a.push_back(r.chance(50) ? 0 : r.range(0, 6)); },
    PREPF { D* x = e.o[0]; Congruence k = HH::make_congruence(c, x->space_dimension());
            return [x, k]() { Bits pre = defbits(*x); x->add_congruence(k);
              if (g_def.active) { FaultPause fp; Bits lower = pre; auto& v = g_def.probes->of(x->space_dimension()); for (size_t i = 0; i < lower.size() && i < v.size(); ++i) lower[i] = lower[i] && oracle::sat(k, v[i]);
                if (K == GRID || K == POLY) def_expect_eq("add_congruence", x->space_dimension(), defbits(*x), lower); else def_expect_between("add_congruence", x->space_dimension(), lower, defbits(*x), pre); }
              return std::string(); }; } });
  H.add({ "add_congruences", 1, F_VAL | F_FAULT, K == GRID ? 6 : 1,
    GENF { for (int k = 0; k < 2; ++k) { gen_expr(r, op, W, false); op.a.push_back(r.chance(50) ? 0 : r.range(0, 6)); } },
    PREPF { D* x = e.o[0]; Congruence_System cgs; for (int k = 0; k < 2; ++k) cgs.insert(HH::make_congruence(c, x->space_dimension()));
            return [x, cgs]() { x->add_congruences(cgs); return std::string(); }; } });
  H.add({ "refine_with_congruences", 1, F_VAL | F_FAULT, 2,
    GENF { for (int k = 0; k < 2; ++k) { gen_expr(r, op, W, false); op.a.push_back(r.range(0, 6)); } },
    PREPF { D* x = e.o[0]; Congruence_System cgs; for (int k = 0; k < 2; ++k) cgs.insert(HH::make_congruence(c, x->space_dimension()));
            return [x, cgs]() { x->refine_with_congruences(cgs); return std::string(); }; } });
  if constexpr (K == POLY) {
    H.add({ "add_generator", 1, F_VAL | F_FAULT, 10,
      GENF { op.a.push_back(r.range(0, 5)); gen_expr(r, op, W, false); op.a.push_back(r.range(1, 4)); },
      PREPF { D* x = e.o[0]; long t = c.mod(6); Linear_Expression le = c.expr(x->space_dimension(), false); long den = 1 + c.mod(4);
              bool zero = le.all_homogeneous_terms_are_zero();
              Generator g = (t <= 1 || zero) ? Generator::point(le, den) : (t == 2 && Dom<D>::nnc) ? Generator::closure_point(le, den) : (t <= 4) ? Generator::ray(le) : Generator::line(le);
              return [x, g]() { x->add_generator(g); return std::string(); }; } });
    H.add({ "add_generators", 1, F_VAL | F_FAULT, 4,
      GENF { for (int k = 0; k < 2; ++k) { op.a.push_back(r.range(0, 5)); gen_expr(r, op, W, false); op.a.push_back(r.range(1, 4)); } },
      PREPF { D* x = e.o[0]; Generator_System gs;
              for (int k = 0; k < 2; ++k) { long t = c.mod(6); Linear_Expression le = c.expr(x->space_dimension(), false); long den = 1 + c.mod(4);
                bool zero = le.all_homogeneous_terms_are_zero();
                gs.insert((k == 0 || t <= 1 || zero) ? Generator::point(le, den) : (t == 2 && Dom<D>::nnc) ? Generator::closure_point(le, den) : (t <= 4) ? Generator::ray(le) : Generator::line(le)); }
              return [x, gs]() { x->add_generators(gs); return std::string(); }; } });
  }
  if constexpr (K == GRID) {
    H.add({ "add_grid_generator", 1, F_VAL | F_FAULT, 10,
      GENF { op.a.push_back(r.range(0, 5)); gen_expr(r, op, W, false); op.a.push_back(r.range(1, 4)); },
      PREPF { D* x = e.o[0]; long t = c.mod(6); Linear_Expression le = c.expr(x->space_dimension(), false); long den = 1 + c.mod(4);
              bool zero = le.all_homogeneous_terms_are_zero();
              Grid_Generator g = (t <= 1 || zero) ? PPL::grid_point(le, den) : (t <= 3) ? PPL::parameter(le, den) : PPL::grid_line(le);
              return [x, g]() { x->add_grid_generator(g); return std::string(); }; } });
    H.add({ "add_grid_generators", 1, F_VAL | F_FAULT, 4,
      GENF { for (int k = 0; k < 2; ++k) { op.a.push_back(r.range(0, 5)); gen_expr(r, op, W, false); op.a.push_back(r.range(1, 4)); } },
      PREPF { D* x = e.o[0]; Grid_Generator_System gs;
              for (int k = 0; k < 2; ++k) { long t = c.mod(6); Linear_Expression le = c.expr(x->space_dimension(), false); long den = 1 + c.mod(4);
                bool zero = le.all_homogeneous_terms_are_zero();
                gs.insert((k == 0 || t <= 1 || zero) ? PPL::grid_point(le, den) : (t <= 3) ? PPL::parameter(le, den) : PPL::grid_line(le)); }
              return [x, gs]() { x->add_grid_generators(gs); return std::string(); }; } });
  }
  // ---------------------------------------------------------------- binary operators
  H.add({ "intersection_assign", 2, F_VAL | F_FAULT | F_SAMEDIM, 8, NOGEN,
    PREPF { D* x = e.o[0]; const D* y = e.o[1]; return [x, y]() { Bits px = defbits(*x), py = defbits(*y); x->intersection_assign(*y);
              if (g_def.active) { Bits want = px; for (size_t i = 0; i < want.size() && i < py.size(); ++i) want[i] = px[i] && py[i]; def_expect_eq("intersection", x->space_dimension(), defbits(*x), want); }
              return std::string(); }; } });
  H.add({ "upper_bound_assign", 2, F_VAL | F_FAULT | F_SAMEDIM, 8, NOGEN,
    PREPF { D* x = e.o[0]; const D* y = e.o[1]; return [x, y]() { Bits px = defbits(*x), py = defbits(*y);
              std::shared_ptr<D> bx, by; if (g_def.active && (K == SHAPE || K == BOX)) { FaultPause fp; bx.reset(new D(*x)); by.reset(new D(*y)); }
              x->upper_bound_assign(*y);
              if (g_def.active) { Bits lower = px; for (size_t i = 0; i < lower.size() && i < py.size(); ++i) lower[i] = px[i] || py[i]; def_expect_sub("upper_bound", x->space_dimension(), lower, defbits(*x)); }
              if constexpr (K == SHAPE || K == BOX) { if (g_def.active && bx) { FaultPause fp; std::string why = not_best_join(*x, *bx, *by); g_def.ctx->stat("best_join_checks"); if (!why.empty()) def_violation("best-upper_bound", why); } }
              return std::string(); }; } });
  H.add({ "difference_assign", 2, F_VAL | F_FAULT | F_SAMEDIM, 6, NOGEN,
    PREPF { D* x = e.o[0]; const D* y = e.o[1]; return [x, y]() { Bits px = defbits(*x), py = defbits(*y); x->difference_assign(*y);
              if (g_def.active) { Bits lower = px; for (size_t i = 0; i < lower.size() && i < py.size(); ++i) lower[i] = px[i] && !py[i]; def_expect_between("difference", x->space_dimension(), lower, defbits(*x), px); }
              return std::string(); }; } });
  H.add({ "time_elapse_assign", 2, F_VAL | F_FAULT | F_SAMEDIM, 4, NOGEN,
    PREPF { D* x = e.o[0]; const D* y = e.o[1]; return [x, y]() { x->time_elapse_assign(*y); return std::string(); }; } });
  if constexpr (K == POLY) {
    H.add({ "positive_time_elapse_assign", 2, F_VAL | F_FAULT | F_SAMEDIM, 2, NOGEN,
      PREPF { D* x = e.o[0]; const D* y = e.o[1]; return [x, y]() { x->positive_time_elapse_assign(*y); return std::string(); }; } });
    H.add({ "poly_hull_assign", 2, F_VAL | F_FAULT | F_SAMEDIM, 3, NOGEN,
      PREPF { D* x = e.o[0]; const D* y = e.o[1]; return [x, y]() { x->poly_hull_assign(*y); return std::string(); }; } });
    H.add({ "poly_difference_assign", 2, F_VAL | F_FAULT | F_SAMEDIM, 2, NOGEN,
      PREPF { D* x = e.o[0]; const D* y = e.o[1]; return [x, y]() { x->poly_difference_assign(*y); return std::string(); }; } });
  }
  H.add({ "upper_bound_assign_if_exact", 2, F_VAL | F_ANS | F_FAULT | F_SAMEDIM, 4, NOGEN,
    PREPF { D* x = e.o[0]; const D* y = e.o[1]; return [x, y]() {
      Bits px, py; std::shared_ptr<D> bx, by;
      if (g_def.active) { FaultPause fp; px = defbits(*x); py = defbits(*y); if constexpr (K == BOX) { bx.reset(new D(*x)); by.reset(new D(*y)); } }
      bool b = x->upper_bound_assign_if_exact(*y);
      if (g_def.active) { FaultPause fp; Bits post = defbits(*x);
        // "true exactly when the union already belongs to the domain": a true answer leaves exactly the union, a false one leaves x alone
        if (b) { Bits un = px; for (size_t i = 0; i < un.size() && i < py.size(); ++i) un[i] = un[i] || py[i];
          // (products answer component-wise: the intersection of two exact unions only has to contain the union of the intersections)
          if constexpr (K == PROD) { Bits all(un.size(), true); def_expect_between("upper_bound_assign_if_exact", x->space_dimension(), un, post, all); }
          else def_expect_eq("upper_bound_assign_if_exact", x->space_dimension(), post, un); }
        else def_expect_eq("upper_bound_assign_if_exact-unchanged", x->space_dimension(), post, px);
        if constexpr (K == BOX) { bool ea, eb; { D t(*bx); ea = t.is_empty(); } { D t(*by); eb = t.is_empty(); }
          if (!ea && !eb) { bool want = box_union_is_box(*bx, *by); g_def.ctx->stat("box_union_oracle_checks");
            if (want != b) def_violation("exact-union-oracle", std::string("upper_bound_assign_if_exact answered ") + (b ? "true" : "false") + " but the union of the two boxes is " + (want ? "" : "not ") + "a box (interval-wise oracle)"); } }
      }
      return b2s(b); }; } });
  if constexpr (K != PROD) {
  H.add({ "simplify_using_context_assign", 2, F_ANS | F_FAULT | F_SAMEDIM, 3, NOGEN,
    PREPF { D* x = e.o[0]; const D* y = e.o[1]; return [x, y]() {
              // documented: a meet-preserving enlargement of *this using y as context (and false iff the meet is empty)
              Bits px = defbits(*x), py = defbits(*y); bool aliased = (x == y);
              bool b = x->simplify_using_context_assign(*y);
              if (g_def.active && !aliased && !px.empty()) { FaultPause fp; Bits post = defbits(*x);
                DefSuffix sfx(!b, "meet-empty");    // (class suffix: the call answered that the meet is empty)
                for (size_t i = 0; i < post.size() && i < py.size() && i < px.size(); ++i) {
                  if (py[i] && post[i] != px[i]) { def_violation("simplify-changes-meet", "point " + probe_str(x->space_dimension(), i) + " of the context " + (px[i] ? "is lost" : "is gained")); break; }
                  if (K != PSET && px[i] && !post[i]) { def_violation("simplify-not-an-enlargement", "point " + probe_str(x->space_dimension(), i) + " of the simplified element is lost"); break; } }
                bool meet = false; for (size_t i = 0; i < px.size() && i < py.size(); ++i) if (px[i] && py[i]) meet = true;
                if (meet && !b) def_violation("simplify-answer", "false returned although a probe point lies in both arguments"); }
              return b2s(b); }; } });
  }
  if constexpr (K == SHAPE || K == BOX) {
  // constructors from a closed polyhedron (given by constraints or by generators) at each complexity class:
  // ANY_COMPLEXITY must give the smallest element containing it, the others a sound one
  H.add({ "from_polyhedron", 1, F_FAULT, 3,
    GENF { op.a.push_back(r.range(0, 5)); gen_expr(r, op, W, false); op.a.push_back(r.range(0, 2)); op.a.push_back(r.range(0, 1)); },
    PREPF { D* x = e.o[0]; dimension_type n = x->space_dimension(); Constraint c1 = HH::make_constraint(c, n, false, false); long cc = c.mod(3); bool via_gens = c.mod(2) != 0;
            return [x, c1, cc, via_gens, n]() {
              static const PPL::Complexity_Class CC[3] = { PPL::POLYNOMIAL_COMPLEXITY, PPL::SIMPLEX_COMPLEXITY, PPL::ANY_COMPLEXITY };
              PPL::C_Polyhedron ph(n);
              { D cpy(*x); Constraint_System cs = cpy.constraints(); for (Constraint_System::const_iterator i = cs.begin(); i != cs.end(); ++i) { if (i->is_strict_inequality()) ph.add_constraint(Linear_Expression(i->expression()) >= 0); else ph.add_constraint(*i); } }
              if (!c1.is_strict_inequality()) ph.add_constraint(c1);
              std::unique_ptr<D> r;
              if (via_gens && !ph.is_empty()) { PPL::Generator_System gs = ph.generators(); r.reset(new D(gs)); }
              else r.reset(new D(ph, CC[cc]));
              bool best = via_gens ? !ph.is_empty() : cc == 2;
              if (g_def.active) { FaultPause fp; g_def.ctx->stat("from_polyhedron_checks"); std::string why = not_best_wrt_polyhedron(*r, ph, best || via_gens); if (!why.empty()) def_violation(best || via_gens ? "best-from_polyhedron" : "sound-from_polyhedron", why); }
              x->m_swap(*r);
              return std::string(); }; } });
  }
  H.add({ "concatenate_assign", 2, F_VAL | F_FAULT, 2, NOGEN,
    PREPF { D* x = e.o[0]; const D* y = e.o[1]; if (x->space_dimension() + y->space_dimension() > MAXDIM) return skip_call();
            return [x, y]() { std::shared_ptr<D> bx, by; if (g_def.active) { FaultPause fp; bx.reset(new D(*x)); by.reset(new D(*y)); }
              dimension_type n = x->space_dimension(), m = y->space_dimension(); x->concatenate_assign(*y);
              if (g_def.active) { FaultPause fp; D post(*x); auto& v = g_def.probes->of(n + m);
                for (size_t i = 0; i < v.size(); ++i) { QPoint a(v[i].begin(), v[i].begin() + (long) n), b(v[i].begin() + (long) n, v[i].end());
                  bool want = member_of(*bx, a) && member_of(*by, b);
                  if (member_of(post, v[i]) != want) { def_violation("def-concatenate", "point " + oracle::show(v[i]) + (want ? " is lost" : " is gained")); break; } } }
              return std::string(); }; } });
  // ---------------------------------------------------------------- affine transformers
  H.add({ "affine_image", 1, F_VAL | F_FAULT, 6,
    GENF { op.a.push_back(r.range(0, 5)); gen_expr(r, op, W, false); op.a.push_back(r.chance(3) ? 0 : r.range(-3, 3)); },
    PREPF { D* x = e.o[0]; dimension_type n = x->space_dimension(); if (n == 0) return skip_call();
            Variable v((dimension_type) c.mod((long) n)); Linear_Expression le = c.expr(n); Coefficient den = coef(c.next());
            return [x, v, le, den]() { std::shared_ptr<D> before; if (g_def.active) { FaultPause fp; before.reset(new D(*x)); }
              x->affine_image(v, le, den);
              mpq_class a(le.coefficient(v));
              if (g_def.active && a != 0 && den != 0) { FaultPause fp; D post(*x); D pre(*before); dimension_type n = x->space_dimension(); auto& pv = g_def.probes->of(n);
                // invertible map: p is in the image iff f^-1(p) was in the set
                for (size_t i = 0; i < pv.size(); ++i) { QPoint q = pv[i]; mpq_class rest = eval_le(le, pv[i]) - a * pv[i][v.id()];
                  mpq_class val = (mpq_class(den) * pv[i][v.id()] - rest) / a; val.canonicalize(); q[v.id()] = val;
                  bool want = member_of(pre, q), got = member_of(post, pv[i]);
                  if (want && !got) { def_violation("def-affine_image", "point " + oracle::show(pv[i]) + " is lost"); break; }
                  if (EXACT_AFFINE && got && !want) { def_violation("def-affine_image", "point " + oracle::show(pv[i]) + " is gained"); break; } } }
              return std::string(); }; } });
  H.add({ "affine_preimage", 1, F_VAL | F_FAULT, 5,
    GENF { op.a.push_back(r.range(0, 5)); gen_expr(r, op, W, false); op.a.push_back(r.chance(3) ? 0 : r.range(-3, 3)); },
    PREPF { D* x = e.o[0]; dimension_type n = x->space_dimension(); if (n == 0) return skip_call();
            Variable v((dimension_type) c.mod((long) n)); Linear_Expression le = c.expr(n); Coefficient den = coef(c.next());
            return [x, v, le, den]() { std::shared_ptr<D> before; if (g_def.active) { FaultPause fp; before.reset(new D(*x)); }
              x->affine_preimage(v, le, den);
              if (g_def.active && den != 0) { FaultPause fp; D post(*x); D pre(*before); dimension_type n = x->space_dimension(); auto& pv = g_def.probes->of(n);
                for (size_t i = 0; i < pv.size(); ++i) { QPoint q = pv[i]; mpq_class val = eval_le(le, pv[i]) / mpq_class(den); val.canonicalize(); q[v.id()] = val;
                  bool want = member_of(pre, q), got = member_of(post, pv[i]);
                  if (want && !got) { def_violation("def-affine_preimage", "point " + oracle::show(pv[i]) + " is lost"); break; }
                  if (EXACT_AFFINE && got && !want) { def_violation("def-affine_preimage", "point " + oracle::show(pv[i]) + " is gained"); break; } } }
              return std::string(); }; } });
  if constexpr (K != GRID) {
    H.add({ "generalized_affine_image", 1, F_VAL | F_FAULT, 5,
      GENF { op.a.push_back(r.range(0, 5)); op.a.push_back(r.range(0, 4)); gen_expr(r, op, W, false); op.a.push_back(r.chance(3) ? 0 : r.range(-3, 3)); },
      PREPF { D* x = e.o[0]; dimension_type n = x->space_dimension(); if (n == 0) return skip_call();
              Variable v((dimension_type) c.mod((long) n)); PPL::Relation_Symbol rs = relsym(c.next()); Linear_Expression le = c.expr(n); Coefficient den = coef(c.next());
              return [x, v, rs, le, den]() { std::shared_ptr<D> pre; if (g_def.active && den != 0) { FaultPause fp; pre.reset(new D(*x)); }
                x->generalized_affine_image(v, rs, le, den);
                if (pre) { FaultPause fp; GeneralizedCond gc{ le, mpq_class(den), rs, v.id() }; must_contain_image("def-generalized_affine_image", *pre, *x, v.id(), gc); }
                return std::string(); }; } });
    H.add({ "generalized_affine_preimage", 1, F_VAL | F_FAULT, 5,
      GENF { op.a.push_back(r.range(0, 5)); op.a.push_back(r.range(0, 4)); gen_expr(r, op, W, false); op.a.push_back(r.chance(3) ? 0 : r.range(-3, 3)); },
      PREPF { D* x = e.o[0]; dimension_type n = x->space_dimension(); if (n == 0) return skip_call();
              Variable v((dimension_type) c.mod((long) n)); PPL::Relation_Symbol rs = relsym(c.next()); Linear_Expression le = c.expr(n); Coefficient den = coef(c.next());
              return [x, v, rs, le, den]() { std::shared_ptr<D> pre; if (g_def.active && den != 0) { FaultPause fp; pre.reset(new D(*x)); }
                x->generalized_affine_preimage(v, rs, le, den);
                if (pre) { FaultPause fp; GeneralizedCond gc{ le, mpq_class(den), rs, v.id() };
                  DefSuffix sfx(rs == PPL::GREATER_OR_EQUAL && oct_refine_ge_callsite(*pre, v.id(), le, den), "oct-refine-ge-callsite");
                  must_contain_preimage("def-generalized_affine_preimage", *pre, *x, v.id(), gc); }
                return std::string(); }; } });
    H.add({ "generalized_affine_image_lr", 1, F_VAL | F_FAULT, 3,
      GENF { op.a.push_back(r.range(0, 4)); gen_expr(r, op, W, false); gen_expr(r, op, W, false); },
      PREPF { D* x = e.o[0]; dimension_type n = x->space_dimension(); PPL::Relation_Symbol rs = relsym(c.next());
              Linear_Expression l = c.expr(n), rr = c.expr(n);
              return [x, l, rs, rr]() { std::shared_ptr<D> pre; dimension_type lv = 0; Coefficient la;
                bool single = single_variable_lhs(l, lv, la);
                if (g_def.active && rs != PPL::NOT_EQUAL && !vars_of(l).empty()) { FaultPause fp; pre.reset(new D(*x)); }
                x->generalized_affine_image(l, rs, rr);
                if (pre && !single) { FaultPause fp; lr_image_check("def-generalized_affine_image_lr", *pre, *x, l, rs, rr); }
                else if (pre) { FaultPause fp; GeneralizedCond gc{ rr - l.inhomogeneous_term(), mpq_class(la), la < 0 ? flip_rel(rs) : rs, lv }; must_contain_image("def-generalized_affine_image_lr", *pre, *x, lv, gc); }
                return std::string(); }; } });
    H.add({ "generalized_affine_preimage_lr", 1, F_VAL | F_FAULT, 3,
      GENF { op.a.push_back(r.range(0, 4)); gen_expr(r, op, W, false); gen_expr(r, op, W, false); },
      PREPF { D* x = e.o[0]; dimension_type n = x->space_dimension(); PPL::Relation_Symbol rs = relsym(c.next());
              Linear_Expression l = c.expr(n), rr = c.expr(n);
              return [x, l, rs, rr]() { std::shared_ptr<D> pre; dimension_type lv = 0; Coefficient la;
                bool single = single_variable_lhs(l, lv, la);
                if (g_def.active && rs != PPL::NOT_EQUAL && !vars_of(l).empty()) { FaultPause fp; pre.reset(new D(*x)); }
                x->generalized_affine_preimage(l, rs, rr);
                if (pre && !single) { FaultPause fp; lr_preimage_check("def-generalized_affine_preimage_lr", *pre, *x, l, rs, rr); }
                else if (pre) { FaultPause fp; Linear_Expression le = rr - l.inhomogeneous_term(); PPL::Relation_Symbol r2 = la < 0 ? flip_rel(rs) : rs; GeneralizedCond gc{ le, mpq_class(la), r2, lv };
                  DefSuffix sfx(r2 == PPL::GREATER_OR_EQUAL && oct_refine_ge_callsite(*pre, lv, le, la), "oct-refine-ge-callsite");
                  must_contain_preimage("def-generalized_affine_preimage_lr", *pre, *x, lv, gc); }
                return std::string(); }; } });
  }
  else {
    H.add({ "generalized_affine_image", 1, F_VAL | F_FAULT, 5,
      GENF { op.a.push_back(r.range(0, 5)); op.a.push_back(r.chance(80) ? 2 : r.range(0, 4)); gen_expr(r, op, W, false); op.a.push_back(r.chance(3) ? 0 : r.range(-3, 3)); op.a.push_back(r.range(0, 5)); },
      PREPF { D* x = e.o[0]; dimension_type n = x->space_dimension(); if (n == 0) return skip_call();
              Variable v((dimension_type) c.mod((long) n)); PPL::Relation_Symbol rs = relsym(c.next()); Linear_Expression le = c.expr(n); Coefficient den = coef(c.next()); Coefficient m = coef(c.next());
              return [x, v, rs, le, den, m]() { x->generalized_affine_image(v, rs, le, den, m); return std::string(); }; } });
    H.add({ "generalized_affine_preimage", 1, F_VAL | F_FAULT, 5,
      GENF { op.a.push_back(r.range(0, 5)); op.a.push_back(r.chance(80) ? 2 : r.range(0, 4)); gen_expr(r, op, W, false); op.a.push_back(r.chance(3) ? 0 : r.range(-3, 3)); op.a.push_back(r.range(0, 5)); },
      PREPF { D* x = e.o[0]; dimension_type n = x->space_dimension(); if (n == 0) return skip_call();
              Variable v((dimension_type) c.mod((long) n)); PPL::Relation_Symbol rs = relsym(c.next()); Linear_Expression le = c.expr(n); Coefficient den = coef(c.next()); Coefficient m = coef(c.next());
              return [x, v, rs, le, den, m]() { x->generalized_affine_preimage(v, rs, le, den, m); return std::string(); }; } });
    H.add({ "generalized_affine_image_lr", 1, F_VAL | F_FAULT, 3,
      GENF { op.a.push_back(r.chance(80) ? 2 : r.range(0, 4)); gen_expr(r, op, W, false); gen_expr(r, op, W, false); op.a.push_back(r.range(0, 5)); },
      PREPF { D* x = e.o[0]; dimension_type n = x->space_dimension(); PPL::Relation_Symbol rs = relsym(c.next());
              Linear_Expression l = c.expr(n), rr = c.expr(n); Coefficient m = coef(c.next());
              return [x, l, rs, rr, m]() { x->generalized_affine_image(l, rs, rr, m); return std::string(); }; } });
    H.add({ "generalized_affine_preimage_lr", 1, F_VAL | F_FAULT, 3,
      GENF { op.a.push_back(r.chance(80) ? 2 : r.range(0, 4)); gen_expr(r, op, W, false); gen_expr(r, op, W, false); op.a.push_back(r.range(0, 5)); },
      PREPF { D* x = e.o[0]; dimension_type n = x->space_dimension(); PPL::Relation_Symbol rs = relsym(c.next());
              Linear_Expression l = c.expr(n), rr = c.expr(n); Coefficient m = coef(c.next());
              return [x, l, rs, rr, m]() { x->generalized_affine_preimage(l, rs, rr, m); return std::string(); }; } });
  }
  H.add({ "bounded_affine_image", 1, F_VAL | F_FAULT, 3,
    GENF { op.a.push_back(r.range(0, 5)); gen_expr(r, op, W, false); gen_expr(r, op, W, false); op.a.push_back(r.chance(3) ? 0 : r.range(-3, 3)); },
    PREPF { D* x = e.o[0]; dimension_type n = x->space_dimension(); if (n == 0) return skip_call();
            Variable v((dimension_type) c.mod((long) n)); Linear_Expression lb = c.expr(n), ub = c.expr(n); Coefficient den = coef(c.next());
            return [x, v, lb, ub, den]() { std::shared_ptr<D> pre; if (g_def.active && den != 0) { FaultPause fp; pre.reset(new D(*x)); }
              x->bounded_affine_image(v, lb, ub, den);
              if (pre) { FaultPause fp; BoundedCond bc{ lb, ub, mpq_class(den), v.id() }; must_contain_image("def-bounded_affine_image", *pre, *x, v.id(), bc); }
              return std::string(); }; } });
  H.add({ "bounded_affine_preimage", 1, F_VAL | F_FAULT, 3,
    GENF { op.a.push_back(r.range(0, 5)); gen_expr(r, op, W, false); gen_expr(r, op, W, false); op.a.push_back(r.chance(3) ? 0 : r.range(-3, 3)); },
    PREPF { D* x = e.o[0]; dimension_type n = x->space_dimension(); if (n == 0) return skip_call();
            Variable v((dimension_type) c.mod((long) n)); Linear_Expression lb = c.expr(n), ub = c.expr(n); Coefficient den = coef(c.next());
            return [x, v, lb, ub, den]() { std::shared_ptr<D> pre; if (g_def.active && den != 0) { FaultPause fp; pre.reset(new D(*x)); }
              x->bounded_affine_preimage(v, lb, ub, den);
              if (pre) { FaultPause fp; BoundedCond bc{ lb, ub, mpq_class(den), v.id() };
                DefSuffix sfx(oct_refine_ge_callsite(*pre, v.id(), lb, den), "oct-refine-ge-callsite");
                must_contain_preimage("def-bounded_affine_preimage", *pre, *x, v.id(), bc); }
              return std::string(); }; } });
  H.add({ "unconstrain", 1, F_VAL | F_FAULT, 3,
    GENF { op.a.push_back(r.range(0, 5)); },
    PREPF { D* x = e.o[0]; dimension_type n = x->space_dimension(); if (n == 0) return skip_call();
            Variable v((dimension_type) c.mod((long) n)); return [x, v]() { Bits pre = defbits(*x); x->unconstrain(v);
              if (g_def.active) { FaultPause fp; Bits post = defbits(*x); def_expect_sub("unconstrain", x->space_dimension(), pre, post);
                // cylindrification: a point that differs from a member only in coordinate v is a member
                auto& pv = g_def.probes->of(x->space_dimension()); bool bad = false;
                for (size_t i = 0; i < pv.size() && !bad; ++i) if (!post[i]) for (size_t j = 0; j < pv.size(); ++j) if (pre[j]) { bool same = true; for (size_t q = 0; q < pv[i].size(); ++q) if (q != v.id() && pv[i][q] != pv[j][q]) { same = false; break; }
                  if (same) { def_violation("def-unconstrain", "point " + oracle::show(pv[i]) + " differs from a member only in the unconstrained coordinate but is not in the result"); bad = true; break; } } }
              return std::string(); }; } });
  H.add({ "unconstrain_set", 1, F_VAL | F_FAULT, 2,
    GENF { op.a.push_back(r.range(0, 63)); },
    PREPF { D* x = e.o[0]; dimension_type n = x->space_dimension(); long mask = c.mod(64); Variables_Set vs;
            for (dimension_type i = 0; i < n; ++i) if (mask & (1L << i)) vs.insert(Variable(i));
            return [x, vs]() { x->unconstrain(vs); return std::string(); }; } });
  // "drops some": any result between {points of x that are integral on the chosen variables} and x itself
  H.add({ "drop_some_non_integer_points", 1, F_FAULT, 2,
    GENF { op.a.push_back(r.chance(30) ? 0 : r.range(1, 63)); op.a.push_back(r.range(0, 2)); },
    PREPF { D* x = e.o[0]; dimension_type n = x->space_dimension(); long mask = c.mod(64); Variables_Set vs; bool all = mask == 0;
            for (dimension_type i = 0; i < n; ++i) if (all || (mask & (1L << i))) vs.insert(Variable(i));
            static const PPL::Complexity_Class CC[3] = { PPL::POLYNOMIAL_COMPLEXITY, PPL::SIMPLEX_COMPLEXITY, PPL::ANY_COMPLEXITY };
            PPL::Complexity_Class cc = CC[c.mod(3)];
            return [x, vs, all, cc]() { Bits pre; if (g_def.active) { FaultPause fp; pre = defbits(*x); }
              if (all) x->drop_some_non_integer_points(cc); else x->drop_some_non_integer_points(vs, cc);
              if (g_def.active) { FaultPause fp; dimension_type n = x->space_dimension(); auto& pv = g_def.probes->of(n); Bits lower = pre;
                for (size_t i = 0; i < pv.size() && i < lower.size(); ++i) if (lower[i]) for (Variables_Set::const_iterator v = vs.begin(); v != vs.end(); ++v) if (pv[i][*v].get_den() != 1) { lower[i] = false; break; }
                def_expect_between(n == 0 ? "drop_some_non_integer_points-zero-dim" : "drop_some_non_integer_points", n, lower, defbits(*x), pre); }
              return std::string(); }; } });
  H.add({ "topological_closure_assign", 1, F_VAL | F_FAULT, 2, NOGEN,
    PREPF { D* x = e.o[0]; return [x]() { x->topological_closure_assign(); return std::string(); }; } });
  // ---------------------------------------------------------------- dimensions
  H.add({ "add_space_dimensions_and_embed", 1, F_VAL | F_FAULT, 2,
    GENF { op.a.push_back(r.range(0, 2)); },
    PREPF { D* x = e.o[0]; dimension_type m = (dimension_type) c.mod(3); if (x->space_dimension() + m > MAXDIM) return skip_call();
            return [x, m]() { std::shared_ptr<D> before; dimension_type n = x->space_dimension(); if (g_def.active) { FaultPause fp; before.reset(new D(*x)); }
              x->add_space_dimensions_and_embed(m);
              if (g_def.active) { FaultPause fp; D post(*x); auto& pv = g_def.probes->of(n + m);
                for (size_t i = 0; i < pv.size(); ++i) { QPoint a(pv[i].begin(), pv[i].begin() + (long) n); bool want = member_of(*before, a);
                  if (member_of(post, pv[i]) != want) { def_violation("def-embed", "point " + oracle::show(pv[i]) + (want ? " is lost" : " is gained")); break; } } }
              return std::string(); }; } });
  H.add({ "add_space_dimensions_and_project", 1, F_VAL | F_FAULT, 2,
    GENF { op.a.push_back(r.range(0, 2)); },
    PREPF { D* x = e.o[0]; dimension_type m = (dimension_type) c.mod(3); if (x->space_dimension() + m > MAXDIM) return skip_call();
            return [x, m]() { x->add_space_dimensions_and_project(m); return std::string(); }; } });
  H.add({ "remove_space_dimensions", 1, F_VAL | F_FAULT, 2,
    GENF { op.a.push_back(r.range(0, 63)); },
    PREPF { D* x = e.o[0]; dimension_type n = x->space_dimension(); long mask = c.mod(64); Variables_Set vs;
            for (dimension_type i = 0; i < n; ++i) if (mask & (1L << i)) vs.insert(Variable(i));
            return [x, vs]() { x->remove_space_dimensions(vs); return std::string(); }; } });
  H.add({ "remove_higher_space_dimensions", 1, F_VAL | F_FAULT, 2,
    GENF { op.a.push_back(r.range(0, 5)); },
    PREPF { D* x = e.o[0]; dimension_type n = x->space_dimension(); dimension_type k = (dimension_type) c.mod((long) n + 1);
            return [x, k]() { x->remove_higher_space_dimensions(k); return std::string(); }; } });
  H.add({ "map_space_dimensions", 1, F_VAL | F_FAULT, 2,
    GENF { for (int k = 0; k < 6; ++k) op.a.push_back(r.range(0, 11)); },
    PREPF { D* x = e.o[0]; dimension_type n = x->space_dimension();
            // a partial injective map: variable i -> slot (or dropped)
            std::shared_ptr<PPL::Partial_Function> pf(new PPL::Partial_Function);
            std::vector<long> key(n); for (dimension_type i = 0; i < n; ++i) key[i] = c.mod(12);
            std::vector<dimension_type> kept; for (dimension_type i = 0; i < n; ++i) if (key[i] < 9) kept.push_back(i);
            std::stable_sort(kept.begin(), kept.end(), [&](dimension_type a, dimension_type b) { return key[a] < key[b]; });
            for (size_t j = 0; j < kept.size(); ++j) pf->insert(kept[j], (dimension_type) j);
            return [x, pf]() { x->map_space_dimensions(*pf); return std::string(); }; } });
  H.add({ "expand_space_dimension", 1, F_VAL | F_FAULT, 2,
    GENF { op.a.push_back(r.range(0, 5)); op.a.push_back(r.range(0, 2)); },
    PREPF { D* x = e.o[0]; dimension_type n = x->space_dimension(); if (n == 0) return skip_call();
            Variable v((dimension_type) c.mod((long) n)); dimension_type m = (dimension_type) c.mod(3); if (n + m > MAXDIM) return skip_call();
            return [x, v, m]() { x->expand_space_dimension(v, m); return std::string(); }; } });
  H.add({ "fold_space_dimensions", 1, F_VAL | F_FAULT, 2,
    GENF { op.a.push_back(r.range(0, 63)); op.a.push_back(r.range(0, 5)); },
    PREPF { D* x = e.o[0]; dimension_type n = x->space_dimension(); if (n == 0) return skip_call();
            long mask = c.mod(64); Variable dest((dimension_type) c.mod((long) n)); Variables_Set vs;
            for (dimension_type i = 0; i < n; ++i) if ((mask & (1L << i)) && i != dest.id()) vs.insert(Variable(i));
            return [x, vs, dest]() { x->fold_space_dimensions(vs, dest); return std::string(); }; } });
  // ---------------------------------------------------------------- observers
  H.add({ "is_empty", 1, F_OBS | F_ANS | F_FAULT, 5, NOGEN, PREPF { D* x = e.o[0]; return [x]() { bool b = x->is_empty();
      if (g_def.active && b) { Bits a = defbits(*x); for (bool q : a) if (q) { def_violation("def-is_empty", "is_empty() is true but a probe point is in the set"); break; } }
      return b2s(b); }; } });
  H.add({ "is_universe", 1, F_OBS | F_ANS | F_FAULT, 3, NOGEN, PREPF { D* x = e.o[0]; return [x]() { return b2s(x->is_universe()); }; } });
  H.add({ "is_bounded", 1, F_OBS | F_ANS | F_FAULT, 3, NOGEN, PREPF { D* x = e.o[0]; return [x]() { return b2s(x->is_bounded()); }; } });
  H.add({ "is_topologically_closed", 1, F_OBS | F_ANS | F_FAULT, 2, NOGEN, PREPF { D* x = e.o[0]; return [x]() { return b2s(x->is_topologically_closed()); }; } });
  H.add({ "is_discrete", 1, F_OBS | F_ANS | F_FAULT, 2, NOGEN, PREPF { D* x = e.o[0]; return [x]() { return b2s(x->is_discrete()); }; } });
  H.add({ "affine_dimension", 1, F_OBS | F_ANS | F_FAULT, 3, NOGEN, PREPF { D* x = e.o[0]; return [x]() { return std::to_string(x->affine_dimension()); }; } });
  H.add({ "constrains", 1, F_OBS | F_ANS | F_FAULT, 3,
    GENF { op.a.push_back(r.range(0, 5)); },
    PREPF { D* x = e.o[0]; dimension_type n = x->space_dimension(); if (n == 0) return skip_call();
            Variable v((dimension_type) c.mod((long) n)); return [x, v]() { return b2s(x->constrains(v)); }; } });
  H.add({ "bounds_from_above", 1, F_OBS | F_ANS | F_FAULT, 3,
    GENF { gen_expr(r, op, W, false); },
    PREPF { D* x = e.o[0]; Linear_Expression le = c.expr(x->space_dimension()); return [x, le]() { return b2s(x->bounds_from_above(le)); }; } });
  H.add({ "bounds_from_below", 1, F_OBS | F_ANS | F_FAULT, 3,
    GENF { gen_expr(r, op, W, false); },
    PREPF { D* x = e.o[0]; Linear_Expression le = c.expr(x->space_dimension()); return [x, le]() { return b2s(x->bounds_from_below(le)); }; } });
  H.add({ "maximize", 1, F_OBS | F_ANS | F_FAULT, 4,
    GENF { gen_expr(r, op, W, false); },
    PREPF { D* x = e.o[0]; Linear_Expression le = c.expr(x->space_dimension());
            return [x, le]() { Coefficient n, d; bool mx = false; bool b = x->maximize(le, n, d, mx); FaultPause fp;
                               if (!b) { if (g_def.active && (K == POLY || K == SHAPE || K == BOX)) { std::string why; try { if (lp_oracle_check(*x, le, true, false, mpq_class(0), false, why) && !why.empty()) def_violation("lp-oracle-maximize", why); } catch (const oracle::OracleError&) {} }
                                         return std::string("F"); }
                               mpq_class q(n, d); q.canonicalize();
                               if (g_def.active && (K == POLY || K == SHAPE || K == BOX)) { std::string why; try { if (lp_oracle_check(*x, le, true, true, q, mx, why) && !why.empty()) def_violation("lp-oracle-maximize", why); else if (why.empty()) g_def.ctx->stat("lp_oracle_checks"); } catch (const oracle::OracleError&) {} }
                               if (g_def.active) { Bits px = defbits(*x); auto& v = g_def.probes->of(x->space_dimension());
                                 for (size_t i = 0; i < px.size() && i < v.size(); ++i) if (px[i]) { mpq_class ev = eval_le(le, v[i]); if (ev > q || (ev == q && !mx && K != GRID)) { def_violation("def-maximize", "supremum " + q.get_str() + " but member point " + oracle::show(v[i]) + " evaluates to " + ev.get_str()); break; } } }
                               return "T:" + q.get_str() + ":" + b2s(mx); }; } });
  // the overloads that also return a point where the optimum is attained: same answer as the plain overload, and the
  // point is a member of the set at which the expression takes the reported value
  H.add({ "maximize_with_point", 1, F_OBS | F_ANS | F_FAULT, 3, GENF { gen_expr(r, op, W, false); }, PREPF { return with_point_call<D, true>(e, c); } });
  H.add({ "minimize_with_point", 1, F_OBS | F_ANS | F_FAULT, 3, GENF { gen_expr(r, op, W, false); }, PREPF { return with_point_call<D, false>(e, c); } });
  H.add({ "minimize", 1, F_OBS | F_ANS | F_FAULT, 4,
    GENF { gen_expr(r, op, W, false); },
    PREPF { D* x = e.o[0]; Linear_Expression le = c.expr(x->space_dimension());
            return [x, le]() { Coefficient n, d; bool mn = false; bool b = x->minimize(le, n, d, mn); FaultPause fp;
                               mpq_class q; if (b) { q = mpq_class(n, d); q.canonicalize(); }
                               if (g_def.active && (K == POLY || K == SHAPE || K == BOX)) { std::string why; try { if (lp_oracle_check(*x, le, false, b, q, mn, why) && !why.empty()) def_violation("lp-oracle-minimize", why); else if (why.empty()) g_def.ctx->stat("lp_oracle_checks"); } catch (const oracle::OracleError&) {} }
                               if (!b) return std::string("F");
                               return "T:" + q.get_str() + ":" + b2s(mn); }; } });
  if constexpr (K != PROD) {
  H.add({ "frequency", 1, F_OBS | F_ANS | F_FAULT, 2,
    GENF { gen_expr(r, op, W, false); },
    PREPF { D* x = e.o[0]; Linear_Expression le = c.expr(x->space_dimension());
            return [x, le]() { Coefficient fn, fd, vn, vd; bool b = x->frequency(le, fn, fd, vn, vd); FaultPause fp; if (!b) return std::string("F");
                               mpq_class f(fn, fd), v(vn, vd); f.canonicalize(); v.canonicalize(); return "T:" + f.get_str() + ":" + v.get_str(); }; } });
  }
  H.add({ "relation_with_constraint", 1, F_OBS | F_ANS | F_FAULT, 5,
    GENF { op.a.push_back(r.range(0, 5)); gen_expr(r, op, W, false); },
    PREPF { D* x = e.o[0]; Constraint k = HH::make_constraint(c, x->space_dimension(), true, false);
            return [x, k]() { auto rel = x->relation_with(k);
              if (g_def.active) { FaultPause fp; Bits px = defbits(*x); auto& v = g_def.probes->of(x->space_dimension());
                for (size_t i = 0; i < px.size() && i < v.size(); ++i) if (px[i]) { bool st = oracle::sat(k, v[i]);
                  if (rel.implies(PPL::Poly_Con_Relation::is_included()) && !st) { def_violation("def-relation_with", "IS_INCLUDED but member point " + oracle::show(v[i]) + " violates the constraint"); break; }
                  if (rel.implies(PPL::Poly_Con_Relation::is_disjoint()) && st) { def_violation("def-relation_with", "IS_DISJOINT but member point " + oracle::show(v[i]) + " satisfies the constraint"); break; }
                  if (rel.implies(PPL::Poly_Con_Relation::saturates()) && eval_le(Linear_Expression(k.expression()), v[i]) != 0) { def_violation("def-relation_with", "SATURATES but member point " + oracle::show(v[i]) + " is not on the hyperplane"); break; } } }
              return rel_str(rel); }; } });
  H.add({ "relation_with_congruence", 1, F_OBS | F_ANS | F_FAULT, 3,
    GENF { gen_expr(r, op, W, false); op.a.push_back(r.range(0, 6)); },
    PREPF { D* x = e.o[0]; Congruence k = HH::make_congruence(c, x->space_dimension());
            return [x, k]() { return rel_str(x->relation_with(k)); }; } });
  H.add({ "relation_with_generator", 1, F_OBS | F_ANS | F_FAULT, 3,
    GENF { op.a.push_back(r.range(0, 5)); gen_expr(r, op, W, false); op.a.push_back(r.range(1, 4)); },
    PREPF { D* x = e.o[0]; long t = c.mod(6); Linear_Expression le = c.expr(x->space_dimension(), false); long den = 1 + c.mod(4);
            bool zero = le.all_homogeneous_terms_are_zero();
            if constexpr (K == GRID) {
              Grid_Generator g = (t <= 1 || zero) ? PPL::grid_point(le, den) : (t <= 3) ? PPL::parameter(le, den) : PPL::grid_line(le);
              return [x, g]() { return rel_str(x->relation_with(g)); };
            }
            else {
              Generator g = (t <= 1 || zero) ? Generator::point(le, den) : (t == 2) ? Generator::closure_point(le, den) : (t <= 4) ? Generator::ray(le) : Generator::line(le);
              return [x, g]() { PPL::Poly_Gen_Relation rel = x->relation_with(g);
                if (g_def.active && g.is_point()) { FaultPause fp; D cpy(*x); QPoint p = oracle::vec_of(g, x->space_dimension(), true);    // missing coordinates are zero
                  bool want = member_of(cpy, p), got = rel.implies(PPL::Poly_Gen_Relation::subsumes());
                  if (want != got) def_violation("def-relation_with_generator", std::string("relation_with(point ") + oracle::show(p) + ") says " + (got ? "subsumes" : "nothing") + " but the point is " + (want ? "" : "not ") + "a member"); }
                return rel_str(rel); };
            } } });
  H.add({ "contains", 2, F_OBS | F_ANS | F_FAULT | F_SAMEDIM, 5, NOGEN,
    PREPF { D* x = e.o[0]; const D* y = e.o[1]; return [x, y]() { bool b = x->contains(*y);
      if (g_def.active) { Bits px = defbits(*x), py = defbits(*y); bool sub = bits_subset(py, px);
        if (b && !sub) def_violation("def-contains", "contains() is true but a probe point of the argument is not in the receiver"); }
      return b2s(b); }; } });
  H.add({ "strictly_contains", 2, F_OBS | F_ANS | F_FAULT | F_SAMEDIM, 3, NOGEN,
    PREPF { D* x = e.o[0]; const D* y = e.o[1]; return [x, y]() { return b2s(x->strictly_contains(*y)); }; } });
  H.add({ "is_disjoint_from", 2, F_OBS | F_ANS | F_FAULT | F_SAMEDIM, 4, NOGEN,
    PREPF { D* x = e.o[0]; const D* y = e.o[1]; return [x, y]() { bool b = x->is_disjoint_from(*y);
      if (g_def.active && b) { Bits px = defbits(*x), py = defbits(*y); for (size_t i = 0; i < px.size() && i < py.size(); ++i) if (px[i] && py[i]) { def_violation("def-is_disjoint_from", "is_disjoint_from() is true but point " + probe_str(x->space_dimension(), i) + " lies in both"); break; } }
      return b2s(b); }; } });
  H.add({ "equals", 2, F_OBS | F_ANS | F_FAULT, 4, NOGEN,
    PREPF { D* x = e.o[0]; const D* y = e.o[1]; return [x, y]() { return b2s(*x == *y); }; } });
  // getters: drive the lazy representation; nothing value-determined is returned
  H.add({ "constraints", 1, F_OBS | F_FAULT, 4, NOGEN, PREPF { D* x = e.o[0]; return [x]() { (void) x->constraints(); return std::string(); }; } });
  H.add({ "minimized_constraints", 1, F_OBS | F_FAULT, 4, NOGEN, PREPF { D* x = e.o[0]; return [x]() { (void) x->minimized_constraints(); return std::string(); }; } });
  H.add({ "congruences", 1, F_OBS | F_FAULT, 2, NOGEN, PREPF { D* x = e.o[0]; return [x]() { (void) x->congruences(); return std::string(); }; } });
  H.add({ "minimized_congruences", 1, F_OBS | F_FAULT, 2, NOGEN, PREPF { D* x = e.o[0]; return [x]() { (void) x->minimized_congruences(); return std::string(); }; } });
  if constexpr (K == POLY) {
    H.add({ "generators", 1, F_OBS | F_FAULT, 5, NOGEN, PREPF { D* x = e.o[0]; return [x]() { (void) x->generators(); return std::string(); }; } });
    H.add({ "minimized_generators", 1, F_OBS | F_FAULT, 5, NOGEN, PREPF { D* x = e.o[0]; return [x]() { (void) x->minimized_generators(); return std::string(); }; } });
  }
  if constexpr (K == GRID) {
    H.add({ "grid_generators", 1, F_OBS | F_FAULT, 5, NOGEN, PREPF { D* x = e.o[0]; return [x]() { (void) x->grid_generators(); return std::string(); }; } });
    H.add({ "minimized_grid_generators", 1, F_OBS | F_FAULT, 5, NOGEN, PREPF { D* x = e.o[0]; return [x]() { (void) x->minimized_grid_generators(); return std::string(); }; } });
  }
  H.add({ "memory_and_hash", 1, F_OBS, 1, NOGEN,
    PREPF { D* x = e.o[0]; return [x]() { (void) x->total_memory_in_bytes(); (void) x->external_memory_in_bytes(); (void) x->hash_code(); return std::string(); }; } });
  H.finish();
}

}  // namespace obj
#endif
