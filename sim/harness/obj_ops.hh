// Operation tables for the "simple" semantic domains (polyhedra, BD shapes,
// octagons, boxes, grids): the common interface of doc/definitions.dox.
#ifndef OBJ_OPS_HH
#define OBJ_OPS_HH
#include "obj_core.hh"

namespace obj {

#define GENF [](Rng& r, Op& op, int W)
#define PREPF [](Env<D>& e, Cur& c) -> std::function<std::string()>
#define NOGEN [](Rng&, Op&, int) {}
static inline std::function<std::string()> skip_call() { return []() { return std::string("skip"); }; }

inline PPL::Relation_Symbol relsym(long v) {
  switch (((v % 5) + 5) % 5) {
  case 0: return PPL::LESS_THAN;
  case 1: return PPL::LESS_OR_EQUAL;
  case 2: return PPL::EQUAL;
  case 3: return PPL::GREATER_OR_EQUAL;
  default: return PPL::GREATER_THAN;
  }
}
template <class R> inline std::string rel_str(const R& r) { FaultPause fp; std::ostringstream o; r.ascii_dump(o); return o.str(); }

const dimension_type MAXDIM = 6;

template <class D> void add_common_ops(ObjHarness<D>& H) {
  typedef ObjHarness<D> HH;
  constexpr Kind K = Dom<D>::kind;
  // ---------------------------------------------------------------- adding information
  if constexpr (K != GRID) {
    H.add({ "add_constraint", 1, F_VAL | F_FAULT, 10,
      GENF { op.a.push_back(r.range(0, 5)); gen_expr(r, op, W, false); },
      PREPF { D* x = e.o[0]; Constraint k = HH::make_constraint(c, x->space_dimension(), HH::allow_strict(), true);
              return [x, k]() { x->add_constraint(k); return std::string(); }; } });
    H.add({ "add_constraints", 1, F_VAL | F_FAULT, 6,
      GENF { op.a.push_back(r.range(0, 2)); for (int k = 0; k < 3; ++k) { op.a.push_back(r.range(0, 5)); gen_expr(r, op, W, false); } },
      PREPF { D* x = e.o[0]; Constraint_System cs; long n = 1 + c.mod(3);
              for (long k = 0; k < n; ++k) cs.insert(HH::make_constraint(c, x->space_dimension(), HH::allow_strict(), true));
              return [x, cs]() { x->add_constraints(cs); return std::string(); }; } });
    H.add({ "add_recycled_constraints", 1, F_VAL | F_FAULT, 2,
      GENF { for (int k = 0; k < 2; ++k) { op.a.push_back(r.range(0, 5)); gen_expr(r, op, W, false); } },
      PREPF { D* x = e.o[0]; std::shared_ptr<Constraint_System> cs(new Constraint_System);
              for (long k = 0; k < 2; ++k) cs->insert(HH::make_constraint(c, x->space_dimension(), HH::allow_strict(), true));
              return [x, cs]() { x->add_recycled_constraints(*cs); return std::string(); }; } });
  }
  H.add({ "refine_with_constraint", 1, F_VAL | F_FAULT, 6,
    GENF { op.a.push_back(r.range(0, 5)); gen_expr(r, op, W, false); },
    PREPF { D* x = e.o[0]; Constraint k = HH::make_constraint(c, x->space_dimension(), true, false);
            return [x, k]() { x->refine_with_constraint(k); return std::string(); }; } });
  H.add({ "refine_with_constraints", 1, F_VAL | F_FAULT, 3,
    GENF { for (int k = 0; k < 2; ++k) { op.a.push_back(r.range(0, 5)); gen_expr(r, op, W, false); } },
    PREPF { D* x = e.o[0]; Constraint_System cs; for (long k = 0; k < 2; ++k) cs.insert(HH::make_constraint(c, x->space_dimension(), true, false));
            return [x, cs]() { x->refine_with_constraints(cs); return std::string(); }; } });
  H.add({ "refine_with_congruence", 1, F_VAL | F_FAULT, 3,
    GENF { gen_expr(r, op, W, false); op.a.push_back(r.range(0, 6)); },
    PREPF { D* x = e.o[0]; Congruence k = HH::make_congruence(c, x->space_dimension());
            return [x, k]() { x->refine_with_congruence(k); return std::string(); }; } });
  H.add({ "add_congruence", 1, F_VAL | F_FAULT, K == GRID ? 10 : 2,
    GENF { gen_expr(r, op, W, false); op.a.push_back(r.chance(50) ? 0 : r.range(0, 6)); },
    PREPF { D* x = e.o[0]; Congruence k = HH::make_congruence(c, x->space_dimension());
            return [x, k]() { x->add_congruence(k); return std::string(); }; } });
  H.add({ "add_congruences", 1, F_VAL | F_FAULT, K == GRID ? 6 : 1,
    GENF { for (int k = 0; k < 2; ++k) { gen_expr(r, op, W, false); op.a.push_back(r.chance(50) ? 0 : r.range(0, 6)); } },
    PREPF { D* x = e.o[0]; Congruence_System cgs; for (int k = 0; k < 2; ++k) cgs.insert(HH::make_congruence(c, x->space_dimension()));
            return [x, cgs]() { x->add_congruences(cgs); return std::string(); }; } });
  H.add({ "refine_with_congruences", 1, F_VAL | F_FAULT, 2,
    GENF { for (int k = 0; k < 2; ++k) { gen_expr(r, op, W, false); op.a.push_back(r.range(0, 6)); } },
    PREPF { D* x = e.o[0]; Congruence_System cgs; for (int k = 0; k < 2; ++k) cgs.insert(HH::make_congruence(c, x->space_dimension()));
            return [x, cgs]() { x->refine_with_congruences(cgs); return std::string(); }; } });
  if constexpr (K == POLY) {
    H.add({ "add_generator", 1, F_VAL | F_FAULT, 10,
      GENF { op.a.push_back(r.range(0, 5)); gen_expr(r, op, W, false); op.a.push_back(r.range(1, 4)); },
      PREPF { D* x = e.o[0]; long t = c.mod(6); Linear_Expression le = c.expr(x->space_dimension(), false); long den = 1 + c.mod(4);
              bool zero = le.all_homogeneous_terms_are_zero();
              Generator g = (t <= 1 || zero) ? Generator::point(le, den) : (t == 2 && Dom<D>::nnc) ? Generator::closure_point(le, den) : (t <= 4) ? Generator::ray(le) : Generator::line(le);
              return [x, g]() { x->add_generator(g); return std::string(); }; } });
    H.add({ "add_generators", 1, F_VAL | F_FAULT, 4,
      GENF { for (int k = 0; k < 2; ++k) { op.a.push_back(r.range(0, 5)); gen_expr(r, op, W, false); op.a.push_back(r.range(1, 4)); } },
      PREPF { D* x = e.o[0]; Generator_System gs;
              for (int k = 0; k < 2; ++k) { long t = c.mod(6); Linear_Expression le = c.expr(x->space_dimension(), false); long den = 1 + c.mod(4);
                bool zero = le.all_homogeneous_terms_are_zero();
                gs.insert((k == 0 || t <= 1 || zero) ? Generator::point(le, den) : (t == 2 && Dom<D>::nnc) ? Generator::closure_point(le, den) : (t <= 4) ? Generator::ray(le) : Generator::line(le)); }
              return [x, gs]() { x->add_generators(gs); return std::string(); }; } });
  }
  if constexpr (K == GRID) {
    H.add({ "add_grid_generator", 1, F_VAL | F_FAULT, 10,
      GENF { op.a.push_back(r.range(0, 5)); gen_expr(r, op, W, false); op.a.push_back(r.range(1, 4)); },
      PREPF { D* x = e.o[0]; long t = c.mod(6); Linear_Expression le = c.expr(x->space_dimension(), false); long den = 1 + c.mod(4);
              bool zero = le.all_homogeneous_terms_are_zero();
              Grid_Generator g = (t <= 1 || zero) ? PPL::grid_point(le, den) : (t <= 3) ? PPL::parameter(le, den) : PPL::grid_line(le);
              return [x, g]() { x->add_grid_generator(g); return std::string(); }; } });
    H.add({ "add_grid_generators", 1, F_VAL | F_FAULT, 4,
      GENF { for (int k = 0; k < 2; ++k) { op.a.push_back(r.range(0, 5)); gen_expr(r, op, W, false); op.a.push_back(r.range(1, 4)); } },
      PREPF { D* x = e.o[0]; Grid_Generator_System gs;
              for (int k = 0; k < 2; ++k) { long t = c.mod(6); Linear_Expression le = c.expr(x->space_dimension(), false); long den = 1 + c.mod(4);
                bool zero = le.all_homogeneous_terms_are_zero();
                gs.insert((k == 0 || t <= 1 || zero) ? PPL::grid_point(le, den) : (t <= 3) ? PPL::parameter(le, den) : PPL::grid_line(le)); }
              return [x, gs]() { x->add_grid_generators(gs); return std::string(); }; } });
  }
  // ---------------------------------------------------------------- binary operators
  H.add({ "intersection_assign", 2, F_VAL | F_FAULT | F_SAMEDIM, 8, NOGEN,
    PREPF { D* x = e.o[0]; const D* y = e.o[1]; return [x, y]() { x->intersection_assign(*y); return std::string(); }; } });
  H.add({ "upper_bound_assign", 2, F_VAL | F_FAULT | F_SAMEDIM, 8, NOGEN,
    PREPF { D* x = e.o[0]; const D* y = e.o[1]; return [x, y]() { x->upper_bound_assign(*y); return std::string(); }; } });
  H.add({ "difference_assign", 2, F_VAL | F_FAULT | F_SAMEDIM, 6, NOGEN,
    PREPF { D* x = e.o[0]; const D* y = e.o[1]; return [x, y]() { x->difference_assign(*y); return std::string(); }; } });
  H.add({ "time_elapse_assign", 2, F_VAL | F_FAULT | F_SAMEDIM, 4, NOGEN,
    PREPF { D* x = e.o[0]; const D* y = e.o[1]; return [x, y]() { x->time_elapse_assign(*y); return std::string(); }; } });
  if constexpr (K == POLY) {
    H.add({ "positive_time_elapse_assign", 2, F_VAL | F_FAULT | F_SAMEDIM, 2, NOGEN,
      PREPF { D* x = e.o[0]; const D* y = e.o[1]; return [x, y]() { x->positive_time_elapse_assign(*y); return std::string(); }; } });
    H.add({ "poly_hull_assign", 2, F_VAL | F_FAULT | F_SAMEDIM, 3, NOGEN,
      PREPF { D* x = e.o[0]; const D* y = e.o[1]; return [x, y]() { x->poly_hull_assign(*y); return std::string(); }; } });
    H.add({ "poly_difference_assign", 2, F_VAL | F_FAULT | F_SAMEDIM, 2, NOGEN,
      PREPF { D* x = e.o[0]; const D* y = e.o[1]; return [x, y]() { x->poly_difference_assign(*y); return std::string(); }; } });
  }
  H.add({ "upper_bound_assign_if_exact", 2, F_VAL | F_ANS | F_FAULT | F_SAMEDIM, 4, NOGEN,
    PREPF { D* x = e.o[0]; const D* y = e.o[1]; return [x, y]() { return b2s(x->upper_bound_assign_if_exact(*y)); }; } });
  H.add({ "simplify_using_context_assign", 2, F_ANS | F_FAULT | F_SAMEDIM, 3, NOGEN,
    PREPF { D* x = e.o[0]; const D* y = e.o[1]; return [x, y]() { return b2s(x->simplify_using_context_assign(*y)); }; } });
  H.add({ "concatenate_assign", 2, F_VAL | F_FAULT, 2, NOGEN,
    PREPF { D* x = e.o[0]; const D* y = e.o[1]; if (x->space_dimension() + y->space_dimension() > MAXDIM) return skip_call();
            return [x, y]() { x->concatenate_assign(*y); return std::string(); }; } });
  // ---------------------------------------------------------------- affine transformers
  H.add({ "affine_image", 1, F_VAL | F_FAULT, 6,
    GENF { op.a.push_back(r.range(0, 5)); gen_expr(r, op, W, false); op.a.push_back(r.chance(3) ? 0 : r.range(-3, 3)); },
    PREPF { D* x = e.o[0]; dimension_type n = x->space_dimension(); if (n == 0) return skip_call();
            Variable v((dimension_type) c.mod((long) n)); Linear_Expression le = c.expr(n); Coefficient den = coef(c.next());
            return [x, v, le, den]() { x->affine_image(v, le, den); return std::string(); }; } });
  H.add({ "affine_preimage", 1, F_VAL | F_FAULT, 5,
    GENF { op.a.push_back(r.range(0, 5)); gen_expr(r, op, W, false); op.a.push_back(r.chance(3) ? 0 : r.range(-3, 3)); },
    PREPF { D* x = e.o[0]; dimension_type n = x->space_dimension(); if (n == 0) return skip_call();
            Variable v((dimension_type) c.mod((long) n)); Linear_Expression le = c.expr(n); Coefficient den = coef(c.next());
            return [x, v, le, den]() { x->affine_preimage(v, le, den); return std::string(); }; } });
  if constexpr (K != GRID) {
    H.add({ "generalized_affine_image", 1, F_VAL | F_FAULT, 5,
      GENF { op.a.push_back(r.range(0, 5)); op.a.push_back(r.range(0, 4)); gen_expr(r, op, W, false); op.a.push_back(r.chance(3) ? 0 : r.range(-3, 3)); },
      PREPF { D* x = e.o[0]; dimension_type n = x->space_dimension(); if (n == 0) return skip_call();
              Variable v((dimension_type) c.mod((long) n)); PPL::Relation_Symbol rs = relsym(c.next()); Linear_Expression le = c.expr(n); Coefficient den = coef(c.next());
              return [x, v, rs, le, den]() { x->generalized_affine_image(v, rs, le, den); return std::string(); }; } });
    H.add({ "generalized_affine_preimage", 1, F_VAL | F_FAULT, 5,
      GENF { op.a.push_back(r.range(0, 5)); op.a.push_back(r.range(0, 4)); gen_expr(r, op, W, false); op.a.push_back(r.chance(3) ? 0 : r.range(-3, 3)); },
      PREPF { D* x = e.o[0]; dimension_type n = x->space_dimension(); if (n == 0) return skip_call();
              Variable v((dimension_type) c.mod((long) n)); PPL::Relation_Symbol rs = relsym(c.next()); Linear_Expression le = c.expr(n); Coefficient den = coef(c.next());
              return [x, v, rs, le, den]() { x->generalized_affine_preimage(v, rs, le, den); return std::string(); }; } });
    H.add({ "generalized_affine_image_lr", 1, F_VAL | F_FAULT, 3,
      GENF { op.a.push_back(r.range(0, 4)); gen_expr(r, op, W, false); gen_expr(r, op, W, false); },
      PREPF { D* x = e.o[0]; dimension_type n = x->space_dimension(); PPL::Relation_Symbol rs = relsym(c.next());
              Linear_Expression l = c.expr(n), rr = c.expr(n);
              return [x, l, rs, rr]() { x->generalized_affine_image(l, rs, rr); return std::string(); }; } });
    H.add({ "generalized_affine_preimage_lr", 1, F_VAL | F_FAULT, 3,
      GENF { op.a.push_back(r.range(0, 4)); gen_expr(r, op, W, false); gen_expr(r, op, W, false); },
      PREPF { D* x = e.o[0]; dimension_type n = x->space_dimension(); PPL::Relation_Symbol rs = relsym(c.next());
              Linear_Expression l = c.expr(n), rr = c.expr(n);
              return [x, l, rs, rr]() { x->generalized_affine_preimage(l, rs, rr); return std::string(); }; } });
  }
  else {
    H.add({ "generalized_affine_image", 1, F_VAL | F_FAULT, 5,
      GENF { op.a.push_back(r.range(0, 5)); op.a.push_back(r.chance(80) ? 2 : r.range(0, 4)); gen_expr(r, op, W, false); op.a.push_back(r.chance(3) ? 0 : r.range(-3, 3)); op.a.push_back(r.range(0, 5)); },
      PREPF { D* x = e.o[0]; dimension_type n = x->space_dimension(); if (n == 0) return skip_call();
              Variable v((dimension_type) c.mod((long) n)); PPL::Relation_Symbol rs = relsym(c.next()); Linear_Expression le = c.expr(n); Coefficient den = coef(c.next()); Coefficient m = coef(c.next());
              return [x, v, rs, le, den, m]() { x->generalized_affine_image(v, rs, le, den, m); return std::string(); }; } });
    H.add({ "generalized_affine_preimage", 1, F_VAL | F_FAULT, 5,
      GENF { op.a.push_back(r.range(0, 5)); op.a.push_back(r.chance(80) ? 2 : r.range(0, 4)); gen_expr(r, op, W, false); op.a.push_back(r.chance(3) ? 0 : r.range(-3, 3)); op.a.push_back(r.range(0, 5)); },
      PREPF { D* x = e.o[0]; dimension_type n = x->space_dimension(); if (n == 0) return skip_call();
              Variable v((dimension_type) c.mod((long) n)); PPL::Relation_Symbol rs = relsym(c.next()); Linear_Expression le = c.expr(n); Coefficient den = coef(c.next()); Coefficient m = coef(c.next());
              return [x, v, rs, le, den, m]() { x->generalized_affine_preimage(v, rs, le, den, m); return std::string(); }; } });
    H.add({ "generalized_affine_image_lr", 1, F_VAL | F_FAULT, 3,
      GENF { op.a.push_back(r.chance(80) ? 2 : r.range(0, 4)); gen_expr(r, op, W, false); gen_expr(r, op, W, false); op.a.push_back(r.range(0, 5)); },
      PREPF { D* x = e.o[0]; dimension_type n = x->space_dimension(); PPL::Relation_Symbol rs = relsym(c.next());
              Linear_Expression l = c.expr(n), rr = c.expr(n); Coefficient m = coef(c.next());
              return [x, l, rs, rr, m]() { x->generalized_affine_image(l, rs, rr, m); return std::string(); }; } });
    H.add({ "generalized_affine_preimage_lr", 1, F_VAL | F_FAULT, 3,
      GENF { op.a.push_back(r.chance(80) ? 2 : r.range(0, 4)); gen_expr(r, op, W, false); gen_expr(r, op, W, false); op.a.push_back(r.range(0, 5)); },
      PREPF { D* x = e.o[0]; dimension_type n = x->space_dimension(); PPL::Relation_Symbol rs = relsym(c.next());
              Linear_Expression l = c.expr(n), rr = c.expr(n); Coefficient m = coef(c.next());
              return [x, l, rs, rr, m]() { x->generalized_affine_preimage(l, rs, rr, m); return std::string(); }; } });
  }
  H.add({ "bounded_affine_image", 1, F_VAL | F_FAULT, 3,
    GENF { op.a.push_back(r.range(0, 5)); gen_expr(r, op, W, false); gen_expr(r, op, W, false); op.a.push_back(r.chance(3) ? 0 : r.range(-3, 3)); },
    PREPF { D* x = e.o[0]; dimension_type n = x->space_dimension(); if (n == 0) return skip_call();
            Variable v((dimension_type) c.mod((long) n)); Linear_Expression lb = c.expr(n), ub = c.expr(n); Coefficient den = coef(c.next());
            return [x, v, lb, ub, den]() { x->bounded_affine_image(v, lb, ub, den); return std::string(); }; } });
  H.add({ "bounded_affine_preimage", 1, F_VAL | F_FAULT, 3,
    GENF { op.a.push_back(r.range(0, 5)); gen_expr(r, op, W, false); gen_expr(r, op, W, false); op.a.push_back(r.chance(3) ? 0 : r.range(-3, 3)); },
    PREPF { D* x = e.o[0]; dimension_type n = x->space_dimension(); if (n == 0) return skip_call();
            Variable v((dimension_type) c.mod((long) n)); Linear_Expression lb = c.expr(n), ub = c.expr(n); Coefficient den = coef(c.next());
            return [x, v, lb, ub, den]() { x->bounded_affine_preimage(v, lb, ub, den); return std::string(); }; } });
  H.add({ "unconstrain", 1, F_VAL | F_FAULT, 3,
    GENF { op.a.push_back(r.range(0, 5)); },
    PREPF { D* x = e.o[0]; dimension_type n = x->space_dimension(); if (n == 0) return skip_call();
            Variable v((dimension_type) c.mod((long) n)); return [x, v]() { x->unconstrain(v); return std::string(); }; } });
  H.add({ "unconstrain_set", 1, F_VAL | F_FAULT, 2,
    GENF { op.a.push_back(r.range(0, 63)); },
    PREPF { D* x = e.o[0]; dimension_type n = x->space_dimension(); long mask = c.mod(64); Variables_Set vs;
            for (dimension_type i = 0; i < n; ++i) if (mask & (1L << i)) vs.insert(Variable(i));
            return [x, vs]() { x->unconstrain(vs); return std::string(); }; } });
  H.add({ "topological_closure_assign", 1, F_VAL | F_FAULT, 2, NOGEN,
    PREPF { D* x = e.o[0]; return [x]() { x->topological_closure_assign(); return std::string(); }; } });
  // ---------------------------------------------------------------- dimensions
  H.add({ "add_space_dimensions_and_embed", 1, F_VAL | F_FAULT, 2,
    GENF { op.a.push_back(r.range(0, 2)); },
    PREPF { D* x = e.o[0]; dimension_type m = (dimension_type) c.mod(3); if (x->space_dimension() + m > MAXDIM) return skip_call();
            return [x, m]() { x->add_space_dimensions_and_embed(m); return std::string(); }; } });
  H.add({ "add_space_dimensions_and_project", 1, F_VAL | F_FAULT, 2,
    GENF { op.a.push_back(r.range(0, 2)); },
    PREPF { D* x = e.o[0]; dimension_type m = (dimension_type) c.mod(3); if (x->space_dimension() + m > MAXDIM) return skip_call();
            return [x, m]() { x->add_space_dimensions_and_project(m); return std::string(); }; } });
  H.add({ "remove_space_dimensions", 1, F_VAL | F_FAULT, 2,
    GENF { op.a.push_back(r.range(0, 63)); },
    PREPF { D* x = e.o[0]; dimension_type n = x->space_dimension(); long mask = c.mod(64); Variables_Set vs;
            for (dimension_type i = 0; i < n; ++i) if (mask & (1L << i)) vs.insert(Variable(i));
            return [x, vs]() { x->remove_space_dimensions(vs); return std::string(); }; } });
  H.add({ "remove_higher_space_dimensions", 1, F_VAL | F_FAULT, 2,
    GENF { op.a.push_back(r.range(0, 5)); },
    PREPF { D* x = e.o[0]; dimension_type n = x->space_dimension(); dimension_type k = (dimension_type) c.mod((long) n + 1);
            return [x, k]() { x->remove_higher_space_dimensions(k); return std::string(); }; } });
  H.add({ "map_space_dimensions", 1, F_VAL | F_FAULT, 2,
    GENF { for (int k = 0; k < 6; ++k) op.a.push_back(r.range(0, 11)); },
    PREPF { D* x = e.o[0]; dimension_type n = x->space_dimension();
            // a partial injective map: variable i -> slot (or dropped)
            std::shared_ptr<PPL::Partial_Function> pf(new PPL::Partial_Function);
            std::vector<long> key(n); for (dimension_type i = 0; i < n; ++i) key[i] = c.mod(12);
            std::vector<dimension_type> kept; for (dimension_type i = 0; i < n; ++i) if (key[i] < 9) kept.push_back(i);
            std::stable_sort(kept.begin(), kept.end(), [&](dimension_type a, dimension_type b) { return key[a] < key[b]; });
            for (size_t j = 0; j < kept.size(); ++j) pf->insert(kept[j], (dimension_type) j);
            return [x, pf]() { x->map_space_dimensions(*pf); return std::string(); }; } });
  H.add({ "expand_space_dimension", 1, F_VAL | F_FAULT, 2,
    GENF { op.a.push_back(r.range(0, 5)); op.a.push_back(r.range(0, 2)); },
    PREPF { D* x = e.o[0]; dimension_type n = x->space_dimension(); if (n == 0) return skip_call();
            Variable v((dimension_type) c.mod((long) n)); dimension_type m = (dimension_type) c.mod(3); if (n + m > MAXDIM) return skip_call();
            return [x, v, m]() { x->expand_space_dimension(v, m); return std::string(); }; } });
  H.add({ "fold_space_dimensions", 1, F_VAL | F_FAULT, 2,
    GENF { op.a.push_back(r.range(0, 63)); op.a.push_back(r.range(0, 5)); },
    PREPF { D* x = e.o[0]; dimension_type n = x->space_dimension(); if (n == 0) return skip_call();
            long mask = c.mod(64); Variable dest((dimension_type) c.mod((long) n)); Variables_Set vs;
            for (dimension_type i = 0; i < n; ++i) if ((mask & (1L << i)) && i != dest.id()) vs.insert(Variable(i));
            return [x, vs, dest]() { x->fold_space_dimensions(vs, dest); return std::string(); }; } });
  // ---------------------------------------------------------------- observers
  H.add({ "is_empty", 1, F_OBS | F_ANS | F_FAULT, 5, NOGEN, PREPF { D* x = e.o[0]; return [x]() { return b2s(x->is_empty()); }; } });
  H.add({ "is_universe", 1, F_OBS | F_ANS | F_FAULT, 3, NOGEN, PREPF { D* x = e.o[0]; return [x]() { return b2s(x->is_universe()); }; } });
  H.add({ "is_bounded", 1, F_OBS | F_ANS | F_FAULT, 3, NOGEN, PREPF { D* x = e.o[0]; return [x]() { return b2s(x->is_bounded()); }; } });
  H.add({ "is_topologically_closed", 1, F_OBS | F_ANS | F_FAULT, 2, NOGEN, PREPF { D* x = e.o[0]; return [x]() { return b2s(x->is_topologically_closed()); }; } });
  H.add({ "is_discrete", 1, F_OBS | F_ANS | F_FAULT, 2, NOGEN, PREPF { D* x = e.o[0]; return [x]() { return b2s(x->is_discrete()); }; } });
  H.add({ "affine_dimension", 1, F_OBS | F_ANS | F_FAULT, 3, NOGEN, PREPF { D* x = e.o[0]; return [x]() { return std::to_string(x->affine_dimension()); }; } });
  H.add({ "constrains", 1, F_OBS | F_ANS | F_FAULT, 3,
    GENF { op.a.push_back(r.range(0, 5)); },
    PREPF { D* x = e.o[0]; dimension_type n = x->space_dimension(); if (n == 0) return skip_call();
            Variable v((dimension_type) c.mod((long) n)); return [x, v]() { return b2s(x->constrains(v)); }; } });
  H.add({ "bounds_from_above", 1, F_OBS | F_ANS | F_FAULT, 3,
    GENF { gen_expr(r, op, W, false); },
    PREPF { D* x = e.o[0]; Linear_Expression le = c.expr(x->space_dimension()); return [x, le]() { return b2s(x->bounds_from_above(le)); }; } });
  H.add({ "bounds_from_below", 1, F_OBS | F_ANS | F_FAULT, 3,
    GENF { gen_expr(r, op, W, false); },
    PREPF { D* x = e.o[0]; Linear_Expression le = c.expr(x->space_dimension()); return [x, le]() { return b2s(x->bounds_from_below(le)); }; } });
  H.add({ "maximize", 1, F_OBS | F_ANS | F_FAULT, 4,
    GENF { gen_expr(r, op, W, false); },
    PREPF { D* x = e.o[0]; Linear_Expression le = c.expr(x->space_dimension());
            return [x, le]() { Coefficient n, d; bool mx; bool b = x->maximize(le, n, d, mx); FaultPause fp; if (!b) return std::string("F");
                               mpq_class q(n, d); q.canonicalize(); return "T:" + q.get_str() + ":" + b2s(mx); }; } });
  H.add({ "minimize", 1, F_OBS | F_ANS | F_FAULT, 4,
    GENF { gen_expr(r, op, W, false); },
    PREPF { D* x = e.o[0]; Linear_Expression le = c.expr(x->space_dimension());
            return [x, le]() { Coefficient n, d; bool mn; bool b = x->minimize(le, n, d, mn); FaultPause fp; if (!b) return std::string("F");
                               mpq_class q(n, d); q.canonicalize(); return "T:" + q.get_str() + ":" + b2s(mn); }; } });
  H.add({ "frequency", 1, F_OBS | F_ANS | F_FAULT, 2,
    GENF { gen_expr(r, op, W, false); },
    PREPF { D* x = e.o[0]; Linear_Expression le = c.expr(x->space_dimension());
            return [x, le]() { Coefficient fn, fd, vn, vd; bool b = x->frequency(le, fn, fd, vn, vd); FaultPause fp; if (!b) return std::string("F");
                               mpq_class f(fn, fd), v(vn, vd); f.canonicalize(); v.canonicalize(); return "T:" + f.get_str() + ":" + v.get_str(); }; } });
  H.add({ "relation_with_constraint", 1, F_OBS | F_ANS | F_FAULT, 5,
    GENF { op.a.push_back(r.range(0, 5)); gen_expr(r, op, W, false); },
    PREPF { D* x = e.o[0]; Constraint k = HH::make_constraint(c, x->space_dimension(), true, false);
            return [x, k]() { return rel_str(x->relation_with(k)); }; } });
  H.add({ "relation_with_congruence", 1, F_OBS | F_ANS | F_FAULT, 3,
    GENF { gen_expr(r, op, W, false); op.a.push_back(r.range(0, 6)); },
    PREPF { D* x = e.o[0]; Congruence k = HH::make_congruence(c, x->space_dimension());
            return [x, k]() { return rel_str(x->relation_with(k)); }; } });
  H.add({ "relation_with_generator", 1, F_OBS | F_ANS | F_FAULT, 3,
    GENF { op.a.push_back(r.range(0, 5)); gen_expr(r, op, W, false); op.a.push_back(r.range(1, 4)); },
    PREPF { D* x = e.o[0]; long t = c.mod(6); Linear_Expression le = c.expr(x->space_dimension(), false); long den = 1 + c.mod(4);
            bool zero = le.all_homogeneous_terms_are_zero();
            if constexpr (K == GRID) {
              Grid_Generator g = (t <= 1 || zero) ? PPL::grid_point(le, den) : (t <= 3) ? PPL::parameter(le, den) : PPL::grid_line(le);
              return [x, g]() { return rel_str(x->relation_with(g)); };
            }
            else {
              Generator g = (t <= 1 || zero) ? Generator::point(le, den) : (t == 2) ? Generator::closure_point(le, den) : (t <= 4) ? Generator::ray(le) : Generator::line(le);
              return [x, g]() { return rel_str(x->relation_with(g)); };
            } } });
  H.add({ "contains", 2, F_OBS | F_ANS | F_FAULT | F_SAMEDIM, 5, NOGEN,
    PREPF { D* x = e.o[0]; const D* y = e.o[1]; return [x, y]() { return b2s(x->contains(*y)); }; } });
  H.add({ "strictly_contains", 2, F_OBS | F_ANS | F_FAULT | F_SAMEDIM, 3, NOGEN,
    PREPF { D* x = e.o[0]; const D* y = e.o[1]; return [x, y]() { return b2s(x->strictly_contains(*y)); }; } });
  H.add({ "is_disjoint_from", 2, F_OBS | F_ANS | F_FAULT | F_SAMEDIM, 4, NOGEN,
    PREPF { D* x = e.o[0]; const D* y = e.o[1]; return [x, y]() { return b2s(x->is_disjoint_from(*y)); }; } });
  H.add({ "equals", 2, F_OBS | F_ANS | F_FAULT, 4, NOGEN,
    PREPF { D* x = e.o[0]; const D* y = e.o[1]; return [x, y]() { return b2s(*x == *y); }; } });
  // getters: drive the lazy representation; nothing value-determined is returned
  H.add({ "constraints", 1, F_OBS | F_FAULT, 4, NOGEN, PREPF { D* x = e.o[0]; return [x]() { (void) x->constraints(); return std::string(); }; } });
  H.add({ "minimized_constraints", 1, F_OBS | F_FAULT, 4, NOGEN, PREPF { D* x = e.o[0]; return [x]() { (void) x->minimized_constraints(); return std::string(); }; } });
  H.add({ "congruences", 1, F_OBS | F_FAULT, 2, NOGEN, PREPF { D* x = e.o[0]; return [x]() { (void) x->congruences(); return std::string(); }; } });
  H.add({ "minimized_congruences", 1, F_OBS | F_FAULT, 2, NOGEN, PREPF { D* x = e.o[0]; return [x]() { (void) x->minimized_congruences(); return std::string(); }; } });
  if constexpr (K == POLY) {
    H.add({ "generators", 1, F_OBS | F_FAULT, 5, NOGEN, PREPF { D* x = e.o[0]; return [x]() { (void) x->generators(); return std::string(); }; } });
    H.add({ "minimized_generators", 1, F_OBS | F_FAULT, 5, NOGEN, PREPF { D* x = e.o[0]; return [x]() { (void) x->minimized_generators(); return std::string(); }; } });
  }
  if constexpr (K == GRID) {
    H.add({ "grid_generators", 1, F_OBS | F_FAULT, 5, NOGEN, PREPF { D* x = e.o[0]; return [x]() { (void) x->grid_generators(); return std::string(); }; } });
    H.add({ "minimized_grid_generators", 1, F_OBS | F_FAULT, 5, NOGEN, PREPF { D* x = e.o[0]; return [x]() { (void) x->minimized_grid_generators(); return std::string(); }; } });
  }
  H.add({ "memory_and_hash", 1, F_OBS, 1, NOGEN,
    PREPF { D* x = e.o[0]; return [x]() { (void) x->total_memory_in_bytes(); (void) x->external_memory_in_bytes(); (void) x->hash_code(); return std::string(); }; } });
  H.finish();
}

}  // namespace obj
#endif
