// obj harness instantiated for C and NNC polyhedra.
#include "obj_ops.hh"
#include "multi.hh"
namespace obj {
template <> struct Dom<PPL::C_Polyhedron> { static constexpr Kind kind = POLY; static constexpr bool nnc = false, oct = false; static const char* name() { return "C_Polyhedron"; } };
template <> struct Dom<PPL::NNC_Polyhedron> { static constexpr Kind kind = POLY; static constexpr bool nnc = true, oct = false; static const char* name() { return "NNC_Polyhedron"; } };
}
int main(int argc, char** argv) {
  obj::ObjHarness<obj::PPL::C_Polyhedron> c("obj_poly");
  obj::ObjHarness<obj::PPL::NNC_Polyhedron> n("obj_poly");
  obj::add_common_ops(c); obj::add_common_ops(n);
  MultiHarness m("obj_poly");
  m.add(&c, "C_Polyhedron"); m.add(&n, "NNC_Polyhedron");
  return kit_main(argc, argv, m);
}
