// obj harness instantiated for partially reduced products (C10; also C13 C14 C15).
// The denotation of a product is read from its UNREDUCED components (direct
// member access; this translation unit is compiled with -fno-access-control),
// so that "reduction never changes the intersection" is exactly M-const on
// every observer, and transformers are judged pointwise against their
// definition on the intersection.
#include "obj_ops.hh"
#include "multi.hh"
namespace obj {
typedef PPL::BD_Shape<mpq_class> BDQ;
template <> struct Dom<PPL::C_Polyhedron> { static constexpr Kind kind = POLY; static constexpr bool nnc = false, oct = false; static const char* name() { return "C_Polyhedron"; } };
template <> struct Dom<PPL::NNC_Polyhedron> { static constexpr Kind kind = POLY; static constexpr bool nnc = true, oct = false; static const char* name() { return "NNC_Polyhedron"; } };
template <> struct Dom<PPL::Grid> { static constexpr Kind kind = GRID; static constexpr bool nnc = false, oct = false; static const char* name() { return "Grid"; } };
template <> struct Dom<BDQ> { static constexpr Kind kind = SHAPE; static constexpr bool nnc = false, oct = false; static const char* name() { return "BD_Shape_mpq"; } };
typedef PPL::Domain_Product<PPL::C_Polyhedron, PPL::Grid> CG;
typedef PPL::Domain_Product<PPL::Grid, BDQ> GB;
#define PROD_DOM(T, A, B2, NAME) template <> struct Dom<T> { static constexpr Kind kind = PROD; static constexpr bool nnc = false, oct = false; typedef A d1_type; typedef B2 d2_type; static const char* name() { return NAME; } };
PROD_DOM(CG::Direct_Product, PPL::C_Polyhedron, PPL::Grid, "Direct_Product_CPoly_Grid")
PROD_DOM(CG::Smash_Product, PPL::C_Polyhedron, PPL::Grid, "Smash_Product_CPoly_Grid")
PROD_DOM(CG::Constraints_Product, PPL::C_Polyhedron, PPL::Grid, "Constraints_Product_CPoly_Grid")
PROD_DOM(CG::Congruences_Product, PPL::C_Polyhedron, PPL::Grid, "Congruences_Product_CPoly_Grid")
PROD_DOM(CG::Shape_Preserving_Product, PPL::C_Polyhedron, PPL::Grid, "Shape_Preserving_Product_CPoly_Grid")
PROD_DOM(GB::Constraints_Product, PPL::Grid, BDQ, "Constraints_Product_Grid_BDS")
PROD_DOM(GB::Shape_Preserving_Product, PPL::Grid, BDQ, "Shape_Preserving_Product_Grid_BDS")
}
template <class T> static obj::ObjHarness<T>* mk(MultiHarness& m) {
  auto* h = new obj::ObjHarness<T>("obj_prod");
  obj::add_common_ops(*h);
  m.add(h, obj::Dom<T>::name());
  return h;
}
int main(int argc, char** argv) {
  MultiHarness m("obj_prod");
  mk<obj::CG::Direct_Product>(m); mk<obj::CG::Smash_Product>(m); mk<obj::CG::Constraints_Product>(m);
  mk<obj::CG::Congruences_Product>(m); mk<obj::CG::Shape_Preserving_Product>(m);
  mk<obj::GB::Constraints_Product>(m); mk<obj::GB::Shape_Preserving_Product>(m);
  return kit_main(argc, argv, m);
}
