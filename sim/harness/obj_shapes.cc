// obj harness instantiated for BD shapes, octagons and boxes over rationals.
#include "obj_ops.hh"
#include "multi.hh"
namespace obj {
typedef PPL::BD_Shape<mpq_class> BDQ;
typedef PPL::Octagonal_Shape<mpq_class> OSQ;
typedef PPL::Rational_Box RBox;
template <> struct Dom<BDQ> { static constexpr Kind kind = SHAPE; static constexpr bool nnc = false, oct = false; static const char* name() { return "BD_Shape_mpq"; } };
template <> struct Dom<OSQ> { static constexpr Kind kind = SHAPE; static constexpr bool nnc = false, oct = true; static const char* name() { return "Octagonal_Shape_mpq"; } };
template <> struct Dom<RBox> { static constexpr Kind kind = BOX; static constexpr bool nnc = true, oct = false; static const char* name() { return "Rational_Box"; } };
}
int main(int argc, char** argv) {
  obj::ObjHarness<obj::BDQ> b("obj_shapes");
  obj::ObjHarness<obj::OSQ> o("obj_shapes");
  obj::ObjHarness<obj::RBox> x("obj_shapes");
  obj::add_common_ops(b); obj::add_common_ops(o); obj::add_common_ops(x);
  MultiHarness m("obj_shapes");
  m.add(&b, "BD_Shape_mpq"); m.add(&o, "Octagonal_Shape_mpq"); m.add(&x, "Rational_Box");
  return kit_main(argc, argv, m);
}
