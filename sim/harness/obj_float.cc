// obj harness instantiated for the floating point instances of BD shapes, octagons and boxes
// (C15: "all coefficient types including special float values and infinities"; C13).  These domains round,
// so the exactness monitors of C04 do not apply to them: only the representation-level properties are run here.
#include "obj_ops.hh"
#include "multi.hh"
#include "interfaced_boxes.hh"
namespace obj {
typedef PPL::BD_Shape<double> BDD;
typedef PPL::Octagonal_Shape<double> OSD;
typedef PPL::Double_Box DBox;
template <> struct Inexact<BDD> { static constexpr bool value = true; };
template <> struct Inexact<OSD> { static constexpr bool value = true; };
template <> struct Inexact<DBox> { static constexpr bool value = true; };
template <> struct Dom<BDD> { static constexpr Kind kind = SHAPE; static constexpr bool nnc = false, oct = false; static const char* name() { return "BD_Shape_double"; } };
template <> struct Dom<OSD> { static constexpr Kind kind = SHAPE; static constexpr bool nnc = false, oct = true; static const char* name() { return "Octagonal_Shape_double"; } };
template <> struct Dom<DBox> { static constexpr Kind kind = BOX; static constexpr bool nnc = true, oct = false; static const char* name() { return "Double_Box"; } };
}
int main(int argc, char** argv) {
  obj::ObjHarness<obj::BDD> b("obj_float");
  obj::ObjHarness<obj::OSD> o("obj_float");
  obj::ObjHarness<obj::DBox> x("obj_float");
  obj::add_common_ops(b); obj::add_common_ops(o); obj::add_common_ops(x);
  MultiHarness m("obj_float");
  m.add(&b, "BD_Shape_double"); m.add(&o, "Octagonal_Shape_double"); m.add(&x, "Double_Box");
  return kit_main(argc, argv, m);
}
