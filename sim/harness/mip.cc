// Harness `mip` (C06): interleavings of solve / is_satisfiable / point
// queries with the incremental mutators of MIP_Problem, under the three
// pricing rules.  Oracles: a fresh problem built from the object's own
// getters (incremental == fresh), exact point evaluation of returned points,
// an independent exact rational simplex, and enumeration of boxed integer
// variables.
#include "kit/ppl_all.hh"
#include "kit/faults.hh"
#include "kit/runner.hh"
#include "oracle/point_eval.hh"
#include "oracle/exact_lp.hh"
#include <sstream>
#include <memory>
#include <sys/wait.h>
#include <unistd.h>
#include <signal.h>

namespace PPL = Parma_Polyhedra_Library;
using PPL::MIP_Problem; using PPL::Constraint; using PPL::Constraint_System; using PPL::Linear_Expression;
using PPL::Variable; using PPL::Variables_Set; using PPL::Coefficient; using PPL::Generator; using PPL::dimension_type;

namespace {

const dimension_type MAXD = 5;

struct Model {   // what the harness fed in
  dimension_type dim = 0;
  std::vector<oracle::LPRow> rows;
  std::vector<mpq_class> obj; mpq_class obj_inh = 0;
  bool maximize = true;
  std::set<dimension_type> ints;
};

struct Slot { std::unique_ptr<MIP_Problem> p; Model m; };

const char* st_name(int s) { return s == 0 ? "UNFEASIBLE" : s == 1 ? "UNBOUNDED" : "OPTIMIZED"; }
int st_code(PPL::MIP_Problem_Status s) { return s == PPL::UNFEASIBLE_MIP_PROBLEM ? 0 : s == PPL::UNBOUNDED_MIP_PROBLEM ? 1 : 2; }

struct Expect { int status; mpq_class value; bool known; std::string why; };

// Absolute answer from the model: LP by exact simplex; integer variables by
// enumeration of their box (bounds read from the single-variable rows).
Expect absolute(const Model& m, bool satisfiability_only) {
  Expect ex; ex.known = true; ex.status = 0;
  std::vector<mpq_class> c = m.obj; c.resize(m.dim);
  if (satisfiability_only) for (auto& q : c) q = 0;
  std::vector<dimension_type> iv(m.ints.begin(), m.ints.end());
  if (iv.empty()) {
    oracle::LPResult r = oracle::lp_solve(m.dim, m.rows, c, m.maximize);
    ex.status = (int) r.status; ex.value = r.value + m.obj_inh;
    return ex;
  }
  // bounds of each integer variable
  std::vector<long> lo(iv.size()), hi(iv.size());
  for (size_t k = 0; k < iv.size(); ++k) {
    bool hl = false, hh = false; mpq_class L, H;
    for (auto& row : m.rows) {
      bool single = true; mpq_class a = 0;
      for (size_t j = 0; j < row.a.size(); ++j) { if (j == iv[k]) a = row.a[j]; else if (row.a[j] != 0) single = false; }
      if (!single || a == 0) continue;
      mpq_class bd = row.b / a; int rel = row.rel * (a < 0 ? -1 : 1);
      if (rel >= 0) { if (!hl || bd > L) { L = bd; hl = true; } }
      if (rel <= 0) { if (!hh || bd < H) { H = bd; hh = true; } }
    }
    if (!hl || !hh || H - L > 12) { ex.known = false; ex.why = "integer variable not boxed"; return ex; }
    mpz_class l, h; mpz_cdiv_q(l.get_mpz_t(), L.get_num_mpz_t(), L.get_den_mpz_t()); mpz_fdiv_q(h.get_mpz_t(), H.get_num_mpz_t(), H.get_den_mpz_t());
    lo[k] = l.get_si(); hi[k] = h.get_si();
    if (lo[k] > hi[k]) { ex.status = 0; return ex; }
  }
  // enumerate
  std::vector<long> cur(lo);
  bool any = false, unb = false; mpq_class best;
  long combos = 1; for (size_t k = 0; k < iv.size(); ++k) combos *= (hi[k] - lo[k] + 1);
  if (combos > 3000) { ex.known = false; ex.why = "integer box too large"; return ex; }
  while (true) {
    std::vector<oracle::LPRow> rows = m.rows;
    for (size_t k = 0; k < iv.size(); ++k) { oracle::LPRow f; f.a.assign(m.dim, 0); f.a[iv[k]] = 1; f.rel = 0; f.b = cur[k]; rows.push_back(f); }
    oracle::LPResult r = oracle::lp_solve(m.dim, rows, c, m.maximize);
    if (r.status == oracle::LP_UNBOUNDED) unb = true;
    else if (r.status == oracle::LP_OPTIMAL) { if (!any || (m.maximize ? r.value > best : r.value < best)) best = r.value; any = true; }
    size_t k = 0;
    for (; k < iv.size(); ++k) { if (++cur[k] <= hi[k]) break; cur[k] = lo[k]; }
    if (k == iv.size()) break;
  }
  if (unb) ex.status = 1; else if (any) { ex.status = 2; ex.value = best + m.obj_inh; } else ex.status = 0;
  return ex;
}

struct MipHarness : Harness {
  const char* name() const override { return "mip"; }
  int child_seconds() const override { return 40; }
  void warmup() override { fault_install_hooks(); }

  Plan generate(Rng& r, const std::string& prop, bool thorough) override {
    Plan p; p.domain = "MIP_Problem";
    bool c14 = prop == "C14";
    int dim = (int) r.range(1, 4), pool = (int) r.range(1, 2);
    p.knobs["dim"] = dim; p.knobs["pool"] = pool;
    bool ints = r.chance(40);
    long n = r.range(8, thorough ? 50 : 24);
    static const char* kinds[] = { "add_constraint", "add_constraint", "add_constraint", "add_constraints", "set_objective", "set_objective", "set_mode", "set_pricing",
      "solve", "solve", "solve", "is_satisfiable", "feasible_point", "optimizing_point", "optimal_value", "add_dims", "make_integer", "copy", "assign", "swap", "clear", "dump_load", "evaluate" };
    for (long i = 0; i < n; ++i) {
      Op op; op.kind = kinds[r.below(sizeof kinds / sizeof *kinds)];
      if (op.kind == "make_integer" && !ints) op.kind = "solve";
      if (op.kind == "clear" && r.chance(70)) op.kind = "add_constraint";
      if (c14 && r.chance(8)) op.kind = "illformed";
      op.a = { r.range(0, pool - 1), r.range(0, pool - 1), r.range(0, 2) };
      for (int k = 0; k < 2; ++k) { for (dimension_type j = 0; j < MAXD; ++j) op.a.push_back(r.chance(40) ? 0 : r.range(-4, 4)); op.a.push_back(r.range(-6, 6)); op.a.push_back(r.range(0, 2)); }
      if (c14 && i >= 3 && r.chance(35)) {
        static const char* fk[] = { "alloc", "alloc", "allocs", "abandon", "abandon", "flag", "weight" };
        op.fault = fk[r.below(sizeof fk / sizeof *fk)]; op.fk = (long) r.below(100000);
      }
      p.ops.push_back(op);
    }
    return p;
  }

  // ---------------------------------------------------------------- C14: fault branches (same scheme as obj_core.hh)
  static std::string fkl(const Op& op, const std::string& extra) { return "MIP_Problem|" + op.kind + "|" + op.fault + (extra.empty() ? "" : "|" + extra); }

  template <class F> bool in_grandchild(Ctx& ctx, const Op& op, const char* what, F body) {
    fflush(stdout); fflush(stderr);
    pid_t g = fork();
    if (g < 0) return false;
    if (g == 0) { kit_cpu_deadline(30); ctx.reset_for_branch(); body(); ctx.flush(false); _exit(0); }
    int st = 0;
    while (waitpid(g, &st, 0) < 0 && errno == EINTR) {}
    if (ctx.sh) ctx.sh->in_branch = 0;
    if (WIFEXITED(st) && WEXITSTATUS(st) == 0) return true;
    std::string how = WIFSIGNALED(st) ? "sig" + std::to_string(WTERMSIG(st)) : "exit" + std::to_string(WEXITSTATUS(st));
    std::string mon = (WIFEXITED(st) && WEXITSTATUS(st) == 77) ? "sanitizer" : (WIFEXITED(st) && WEXITSTATUS(st) == 78) ? "terminate" : "crash";
    ctx.violation("C14", mon + "-in-fault-branch", fkl(op, std::string(what) + "|" + how + "|" + (ctx.sh ? std::string(ctx.sh->note) : "")), "fault branch died (" + how + ") during: " + (ctx.sh ? std::string(ctx.sh->note) : ""));
    return false;
  }

  // the library call of an operation, nothing else (no model, no judgement): what a fault branch executes
  static Constraint con_of(dimension_type dim, const Op& op, size_t base) {
    Linear_Expression e; for (dimension_type j = 0; j < dim; ++j) e += (op.arg(base + j) % 6) * Variable(j);
    long b = op.arg(base + MAXD) % 8; int rel = (int) op.mod(base + MAXD + 1, 3) - 1;
    return rel < 0 ? (e <= b) : rel > 0 ? (e >= b) : (e == b);
  }
  static bool faultable(const std::string& k) {
    return k == "add_constraint" || k == "add_constraints" || k == "set_objective" || k == "solve" || k == "is_satisfiable" || k == "feasible_point"
        || k == "optimizing_point" || k == "optimal_value" || k == "add_dims" || k == "make_integer" || k == "copy" || k == "assign" || k == "dump_load";
  }
  static bool logically_const(const std::string& k) { return k == "solve" || k == "is_satisfiable" || k == "feasible_point" || k == "optimizing_point" || k == "optimal_value" || k == "copy" || k == "dump_load"; }
  static void lib_call(MIP_Problem& p, MIP_Problem& q, const Op& op) {
    const std::string& k = op.kind; dimension_type dim = p.space_dimension();
    if (k == "add_constraint") p.add_constraint(con_of(dim, op, 3));
    else if (k == "add_constraints") { Constraint_System cs; cs.insert(con_of(dim, op, 3)); cs.insert(con_of(dim, op, 3 + MAXD + 2)); if (cs.space_dimension() < dim) cs.set_space_dimension(dim); p.add_constraints(cs); }
    else if (k == "set_objective") { Linear_Expression e; for (dimension_type j = 0; j < dim; ++j) e += (op.arg(3 + j) % 6) * Variable(j); e += op.arg(3 + MAXD) % 8; p.set_objective_function(e); }
    else if (k == "solve") (void) p.solve();
    else if (k == "is_satisfiable") (void) p.is_satisfiable();
    else if (k == "feasible_point") { try { (void) p.feasible_point(); } catch (const std::domain_error&) {} }
    else if (k == "optimizing_point") { try { (void) p.optimizing_point(); } catch (const std::domain_error&) {} }
    else if (k == "optimal_value") { try { Coefficient n, d; p.optimal_value(n, d); } catch (const std::domain_error&) {} }
    else if (k == "add_dims") p.add_space_dimensions_and_embed((dimension_type) op.mod(2, 3));
    else if (k == "make_integer") { if (dim == 0) return; Variables_Set vs; vs.insert(Variable((dimension_type) op.mod(3, (long) dim))); p.add_to_integer_space_dimensions(vs); }
    else if (k == "copy") { MIP_Problem c(p); (void) c.is_satisfiable(); }
    else if (k == "assign") q = p;
    else if (k == "dump_load") { std::ostringstream o; p.ascii_dump(o); std::istringstream in(o.str()); MIP_Problem z(0); (void) z.ascii_load(in); }
  }
  // observable behaviour of a problem (solved on a private copy): status, optimum
  static std::string behaviour(const MIP_Problem& p) {
    MIP_Problem c(p); int st = st_code(c.solve()); std::string r = st_name(st);
    if (st == 2) { Coefficient n, d; c.optimal_value(n, d); mpq_class v(n, d); v.canonicalize(); r += " " + v.get_str(); }
    return r;
  }

  void fault_branches(Ctx& ctx, const Op& op, Slot& x, Slot& y) {
    Shared* sh = ctx.sh;
    if (!sh || !faultable(op.kind)) return;
    const std::string fk = op.fault;
    bool okc = in_grandchild(ctx, op, "count", [&]() {
      unsigned long long w0 = PPL::Weightwatch_Traits::weight;
      fault_arm_count(); bool threw = false;
      ctx.note("count: call");
      try { lib_call(*x.p, *y.p, op); } catch (...) { threw = true; }
      long a = g_fault.count, b = g_fault.ab_count; fault_disarm();
      sh->scratch[0] = a; sh->scratch[1] = b; sh->scratch[2] = (long) (PPL::Weightwatch_Traits::weight - w0); sh->scratch[3] = threw ? 1 : 0;
    });
    if (!okc || sh->scratch[3]) { ctx.stat("c14.skipped_op_throws_unfaulted"); return; }
    long space = fk == "abandon" ? sh->scratch[1] : fk == "weight" ? sh->scratch[2] : sh->scratch[0];
    if (space <= 0) { ctx.stat("c14.fault_has_no_position." + fk); return; }
    long k = op.fk % space;
    in_grandchild(ctx, op, fk.c_str(), [&]() {
      ctx.note("branch: copies");
      MIP_Problem good_x(*x.p), good_y(*y.p);
      std::string beh_x = behaviour(good_x), beh_y = behaviour(good_y);
      long live0 = g_fault.live; (void) live0;
      std::string outcome = "completed";
      ctx.note(("branch: faulted call " + fk + "@" + std::to_string(k)).c_str());
      {
        typedef PPL::Threshold_Watcher<PPL::Weightwatch_Traits> WW;
        std::unique_ptr<WW> ww;
        if (fk == "weight") { ww.reset(new WW((PPL::Weightwatch_Traits::Delta) (k + 1), PPL::abandon_expensive_computations, g_sim_throwable)); fault_arm_count(); }
        else if (fk == "alloc") fault_arm_alloc(k, false);
        else if (fk == "allocs") fault_arm_alloc(k, true);
        else if (fk == "abandon") fault_arm_abandon(k);
        else fault_arm_flag(k);
        try { lib_call(*x.p, *y.p, op); }
        catch (const std::bad_alloc&) { outcome = "bad_alloc"; }
        catch (const Sim_Abandon&) { outcome = "abandoned"; }
        catch (const std::exception& e) { outcome = std::string("other:") + e.what(); }
        catch (...) { outcome = "other:unknown"; }
        bool fired = g_fault.failed > 0 || g_fault.ab_fired || g_fault.flag_raised || (fk == "weight" && PPL::abandon_expensive_computations != nullptr);
        fault_disarm(); fault_lower_flag();
        if (fired) ++ctx.faults_fired;
        ctx.stat("c14.fault." + fk + "." + (fired ? "fired" : "not_fired"));
        ctx.stat("c14.outcome." + fk + "." + (outcome.compare(0, 6, "other:") == 0 ? "other" : outcome));
        ctx.note("branch: watcher teardown");
      }
      bool expect_alloc = fk == "alloc" || fk == "allocs";
      if (outcome.compare(0, 6, "other:") == 0) ctx.violation("C14", "wrong-exception", fkl(op, outcome.substr(0, 60)), "injected " + fk + " surfaced as " + outcome);
      else if (outcome == "bad_alloc" && !expect_alloc) ctx.violation("C14", "wrong-exception", fkl(op, "bad_alloc"), "bad_alloc without an injected allocation failure");
      else if (outcome == "abandoned" && expect_alloc) ctx.violation("C14", "wrong-exception", fkl(op, "abandoned"), "abandonment without an injected abandonment");
      if (PPL::Weightwatch_Traits::check_function != nullptr) ctx.violation("C14", "global-state", fkl(op, "check_function"), "Weightwatch check_function left installed");
      if (outcome == "completed" || !ctx.viols.empty()) return;
      // direct use: the problems that were hit are valid objects; a logically const operation leaves the problem itself unchanged
      ctx.note("branch: direct use of the objects that were hit");
      std::vector<std::pair<MIP_Problem*, const std::string*> > hit = { { x.p.get(), &beh_x } };
      if (op.kind == "assign" && &x != &y) hit.push_back({ y.p.get(), nullptr });
      for (auto& h : hit) {
        bool ok = false; try { ok = h.first->OK(); } catch (const std::exception&) {}
        ctx.stat("c14.direct_use_checks");
        if (!ok) { ctx.violation("C14", "damaged-not-ok", fkl(op, outcome), "OK() is false for a MIP_Problem involved in a call cut short by " + outcome + " (before any recovery)"); return; }
        if (h.second && logically_const(op.kind)) {
          std::string b; try { b = behaviour(*h.first); } catch (const std::exception& e) { b = std::string("throws ") + e.what(); }
          if (b != *h.second) { ctx.violation("C14", "const-op-changed-problem", fkl(op, outcome), "after a logically const call cut short by " + outcome + " the problem solves to [" + b + "], a copy taken before to [" + *h.second + "]"); return; }
        }
      }
      // recovery by assignment / swap / re-creation, then the same behaviour as the value assigned
      ctx.note("branch: recovery");
      long mode = (op.fk + k) % 3;
      if (mode == 0) { x.p.reset(); x.p.reset(new MIP_Problem(good_x)); } else if (mode == 1) *x.p = good_x; else { MIP_Problem t(good_x); using std::swap; swap(*x.p, t); }
      if (!x.p->OK()) ctx.violation("C14", "recovered-not-ok", fkl(op, mode == 1 ? "assign" : mode == 2 ? "swap" : "recreate"), "MIP_Problem recovered after " + outcome + " fails OK()");
      else { std::string b = behaviour(*x.p); if (b != beh_x) ctx.violation("C14", "recovered-differs", fkl(op, ""), "recovered problem solves to [" + b + "], the value assigned to it to [" + beh_x + "]"); }
      if (!ctx.viols.empty()) return;
      // leaks: destroy everything, then ask LSan
      ctx.note("branch: teardown");
      x.p.reset(); if (&x != &y) y.p.reset();
      { MIP_Problem e1(0); using std::swap; swap(good_x, e1); MIP_Problem e2(0); swap(good_y, e2); }
      ctx.stat("c14.leak_checks");
      std::string site;
      if (lsan_leaks_site(site)) ctx.violation("C14", "leak", fkl(op, "site=" + site), "memory allocated during a call cut short by " + outcome + " is unreachable after every problem was destroyed (first non-allocator frame: " + site + ")");
    });
  }

  static std::string kl(const Op& op, const std::string& extra) { return "MIP_Problem|" + op.kind + "|-|" + extra; }

  static void add_row(Slot& s, const Op& op, size_t base) {
    oracle::LPRow row; row.a.assign(s.m.dim, 0); Linear_Expression e;
    for (dimension_type j = 0; j < s.m.dim; ++j) { long a = op.arg(base + j) % 6; row.a[j] = a; e += a * Variable(j); }
    long b = op.arg(base + MAXD) % 8; int rel = (int) op.mod(base + MAXD + 1, 3) - 1;
    row.b = b; row.rel = rel;
    Constraint c = rel < 0 ? (e <= b) : rel > 0 ? (e >= b) : (e == b);
    s.p->add_constraint(c);
    s.m.rows.push_back(row);
  }

  static bool point_ok(Ctx& ctx, const Op& op, const Slot& s, const Generator& g, const char* which, bool has_ints) {
    if (!g.is_point()) { ctx.violation("C06", "point", kl(op, which), "returned generator is not a point"); return false; }
    oracle::QPoint p = oracle::vec_of(g, s.m.dim, true);
    for (MIP_Problem::const_iterator i = s.p->constraints_begin(); i != s.p->constraints_end(); ++i)
      if (!oracle::sat(*i, p)) { ctx.violation("C06", "point-infeasible", kl(op, std::string(which) + (has_ints ? "|int" : "|lp")), "returned point " + oracle::show(p) + " violates a constraint of the problem"); return false; }
    for (dimension_type v : s.m.ints) if (p[v].get_den() != 1) { ctx.violation("C06", "point-not-integral", kl(op, which), "integer variable has value " + p[v].get_str()); return false; }
    return true;
  }

  // incremental == fresh, for every pricing rule; and the absolute answer
  void judge_solve(Ctx& ctx, const Op& op, Slot& s, int status, bool sat_only) {
    bool has_ints = !s.m.ints.empty();
    std::string tag = has_ints ? "int" : "lp";
    if (!s.p->OK()) { ctx.violation("C06", "ok", kl(op, tag), "OK() false after solve"); return; }
    mpq_class val; bool have_val = false;
    if (status == 2 && !sat_only) { Coefficient n, d; s.p->optimal_value(n, d); val = mpq_class(n, d); val.canonicalize(); have_val = true;
      const Generator& g = s.p->optimizing_point();
      if (!point_ok(ctx, op, s, g, "optimizing_point", has_ints)) return;
      Coefficient en, ed; s.p->evaluate_objective_function(g, en, ed); mpq_class ev(en, ed); ev.canonicalize();
      if (ev != val) { ctx.violation("C06", "value-vs-point", kl(op, tag), "optimal_value " + val.get_str() + " but objective at optimizing_point is " + ev.get_str()); return; }
    }
    if (status != 0) { const Generator& g = s.p->feasible_point(); if (!point_ok(ctx, op, s, g, "feasible_point", has_ints)) return; }
    // fresh twins built from the object's own getters
    static const MIP_Problem::Control_Parameter_Value pr[3] = { MIP_Problem::PRICING_STEEPEST_EDGE_FLOAT, MIP_Problem::PRICING_STEEPEST_EDGE_EXACT, MIP_Problem::PRICING_TEXTBOOK };
    for (int k = 0; k < 3; ++k) {
      MIP_Problem f(s.p->space_dimension(), s.p->constraints_begin(), s.p->constraints_end(), s.p->integer_space_dimensions(), s.p->objective_function(), s.p->optimization_mode());
      f.set_control_parameter(pr[k]);
      int fs;
      if (sat_only) fs = f.is_satisfiable() ? 2 : 0; else fs = st_code(f.solve());
      int mine = sat_only ? (status == 0 ? 0 : 2) : status;
      if (fs != mine) { ctx.violation("C06", "incremental-vs-fresh", kl(op, tag + "|" + st_name(mine) + "-vs-" + st_name(fs)), std::string("incremental ") + st_name(mine) + " but a fresh problem with the same data (pricing " + std::to_string(k) + ") says " + st_name(fs)); return; }
      if (have_val && fs == 2) { Coefficient n, d; f.optimal_value(n, d); mpq_class fv(n, d); fv.canonicalize();
        if (fv != val) { ctx.violation("C06", "incremental-vs-fresh", kl(op, tag + "|value"), "incremental optimum " + val.get_str() + " fresh optimum " + fv.get_str()); return; } }
      ctx.stat("mip.fresh_twins");
    }
    // absolute
    Expect ex = absolute(s.m, sat_only);
    if (!ex.known) { ctx.stat("mip.absolute_skipped"); return; }
    ctx.stat(has_ints ? "mip.absolute_checked_int" : "mip.absolute_checked_lp");
    int mine = sat_only ? (status == 0 ? 0 : 2) : status;
    int want = sat_only ? (ex.status == 0 ? 0 : 2) : ex.status;
    if (mine != want) { ctx.violation("C06", "absolute-status", kl(op, tag + "|" + st_name(mine) + "-vs-" + st_name(want)), std::string("library says ") + st_name(mine) + ", exact reference says " + st_name(want)); return; }
    if (have_val && want == 2 && val != ex.value) ctx.violation("C06", "absolute-value", kl(op, tag), "library optimum " + val.get_str() + ", exact reference " + ex.value.get_str());
  }

  void run(const Plan& plan, Ctx& ctx) override {
    int pool = (int) std::max(1L, std::min(3L, plan.knob("pool", 1)));
    dimension_type dim = (dimension_type) std::max(0L, std::min((long) MAXD, plan.knob("dim", 2)));
    std::vector<Slot> S((size_t) pool);
    for (auto& s : S) { s.p.reset(new MIP_Problem(dim)); s.m.dim = dim; s.m.obj.assign(dim, 0); }
    long idx = -1;
    for (const Op& op : plan.ops) {
      ++idx;
      if (!ctx.viols.empty()) break;
      ctx.begin_op(idx, op);
      Slot& x = S[(size_t) op.mod(0, pool)]; Slot& y = S[(size_t) op.mod(1, pool)];
      const std::string& k = op.kind;
      ctx.log(k);
      { std::ostringstream o; x.p->ascii_dump(o); std::string d = o.str(); size_t p1 = d.find("status"); size_t p2 = d.find("initialized");
        ctx.state(k + "|" + (p1 == std::string::npos ? "" : d.substr(p1, std::min<size_t>(24, d.find('\n', p1) - p1))) + "|" + (p2 == std::string::npos ? "" : d.substr(p2, std::min<size_t>(16, d.find('\n', p2) - p2)))); }
      if (!op.fault.empty() && plan.prop == "C14") fault_branches(ctx, op, x, y);
      if (!ctx.viols.empty()) break;
      try {
        if (k == "add_constraint") add_row(x, op, 3);
        else if (k == "add_constraints") { add_row(x, op, 3); add_row(x, op, 3 + MAXD + 2); }
        else if (k == "set_objective") { Linear_Expression e; for (dimension_type j = 0; j < x.m.dim; ++j) { long a = op.arg(3 + j) % 6; x.m.obj[j] = a; e += a * Variable(j); }
          long b = op.arg(3 + MAXD) % 8; e += b; x.m.obj_inh = b; x.p->set_objective_function(e); }
        else if (k == "set_mode") { x.m.maximize = op.mod(2, 2) == 0; x.p->set_optimization_mode(x.m.maximize ? PPL::MAXIMIZATION : PPL::MINIMIZATION); }
        else if (k == "set_pricing") { static const MIP_Problem::Control_Parameter_Value pr[3] = { MIP_Problem::PRICING_STEEPEST_EDGE_FLOAT, MIP_Problem::PRICING_STEEPEST_EDGE_EXACT, MIP_Problem::PRICING_TEXTBOOK };
          x.p->set_control_parameter(pr[op.mod(2, 3)]); }
        else if (k == "add_dims") { dimension_type m = (dimension_type) op.mod(2, 3); if (x.m.dim + m > MAXD) continue; x.p->add_space_dimensions_and_embed(m); x.m.dim += m; x.m.obj.resize(x.m.dim, 0); for (auto& r : x.m.rows) r.a.resize(x.m.dim, 0); }
        else if (k == "make_integer") { if (x.m.dim == 0) continue; dimension_type v = (dimension_type) op.mod(3, (long) x.m.dim); Variables_Set vs; vs.insert(Variable(v));
          // box it, so that enumeration is complete and branch-and-bound terminates.  The box comes FIRST and, half of the
          // time, the problem is solved in between: the declaration itself must then invalidate the cached answer
          // (adding a constraint afterwards would do it on its behalf)
          long lo = op.arg(4) % 4, hi = lo + 1 + op.mod(5, 5);
          oracle::LPRow a; a.a.assign(x.m.dim, 0); a.a[v] = 1; a.rel = 1; a.b = lo; x.m.rows.push_back(a); x.p->add_constraint(Variable(v) >= lo);
          oracle::LPRow b; b.a.assign(x.m.dim, 0); b.a[v] = 1; b.rel = -1; b.b = hi; x.m.rows.push_back(b); x.p->add_constraint(Variable(v) <= hi);
          if (op.mod(6, 2)) { (void) x.p->solve(); ctx.stat("mip.solved_before_integer_declaration"); }
          x.p->add_to_integer_space_dimensions(vs); x.m.ints.insert(v); }
        else if (k == "solve") { int st = st_code(x.p->solve()); ctx.log((u64) st); ctx.stat(std::string("mip.solve.") + st_name(st)); judge_solve(ctx, op, x, st, false); }
        else if (k == "is_satisfiable") { bool b = x.p->is_satisfiable(); ctx.log((u64) b); judge_solve(ctx, op, x, b ? 2 : 0, true); }
        else if (k == "feasible_point" || k == "optimizing_point" || k == "optimal_value") {
          // documented: these solve the problem if needed; domain_error when there is no such point
          bool threw = false;
          try { if (k == "feasible_point") (void) x.p->feasible_point(); else if (k == "optimizing_point") (void) x.p->optimizing_point(); else { Coefficient n, d; x.p->optimal_value(n, d); } }
          catch (const std::domain_error&) { threw = true; }
          Expect ex = absolute(x.m, k == "feasible_point");
          if (ex.known) { bool should = k == "feasible_point" ? ex.status == 0 : ex.status != 2;
            if (threw != should) ctx.violation("C06", "point-query", kl(op, x.m.ints.empty() ? "lp" : "int"), std::string(k) + (threw ? " threw domain_error" : " returned") + " but the exact reference status is " + st_name(ex.status)); }
          if (!threw && !x.p->OK()) ctx.violation("C06", "ok", kl(op, "query"), "OK() false");
        }
        else if (k == "evaluate") { Linear_Expression e; for (dimension_type j = 0; j < x.m.dim; ++j) e += (op.arg(3 + j) % 5) * Variable(j); long den = 1 + op.mod(3 + MAXD, 3);
          Generator g = Generator::point(e, den); Coefficient n, d; x.p->evaluate_objective_function(g, n, d); mpq_class got(n, d); got.canonicalize();
          mpq_class want = x.m.obj_inh; for (dimension_type j = 0; j < x.m.dim; ++j) want += x.m.obj[j] * mpq_class(op.arg(3 + j) % 5, den);
          want.canonicalize(); if (got != want) ctx.violation("C06", "evaluate", kl(op, ""), "evaluate_objective_function gives " + got.get_str() + " expected " + want.get_str()); }
        else if (k == "illformed") {
          // documented precondition violations: std::invalid_argument and the problem unchanged (text of its dump)
          std::ostringstream o0; x.p->ascii_dump(o0);
          long which = op.mod(2, 4); bool threw = false; std::string what;
          dimension_type dim = x.p->space_dimension();
          try {
            if (which == 0) { Constraint_System cs; cs.insert(con_of(dim, op, 3)); cs.insert(con_of(dim, op, 3 + MAXD + 2)); Linear_Expression e; if (dim) e += Variable(0); cs.insert(e > 1); cs.set_space_dimension(dim); x.p->add_constraints(cs); what = "add_constraints(cs) with a strict inequality after valid constraints"; }
            else if (which == 1) { Linear_Expression e; if (dim) e += Variable(dim - 1); x.p->add_constraint(e < 3); what = "add_constraint(strict)"; }
            else if (which == 2) { x.p->add_constraint(Linear_Expression(Variable(dim)) >= 0); what = "add_constraint of a higher space dimension"; }
            else { Variables_Set vs; vs.insert(Variable(dim)); x.p->add_to_integer_space_dimensions(vs); what = "add_to_integer_space_dimensions beyond the space dimension"; }
          }
          catch (const std::invalid_argument&) { threw = true; }
          ctx.stat("c14.illformed.mip"); ++ctx.faults_fired;
          if (!threw) { ctx.violation("C14", "illformed-accepted", "MIP_Problem|illformed|-|" + std::to_string(which), "accepted: " + what); break; }
          std::ostringstream o1; x.p->ascii_dump(o1);
          if (!x.p->OK()) { ctx.violation("C14", "rejected-not-ok", "MIP_Problem|illformed|-|" + std::to_string(which), "OK() false after a rejected call"); break; }
          if (o0.str() != o1.str()) { ctx.violation("C14", "rejected-changed", "MIP_Problem|illformed|-|" + std::to_string(which), "the problem changed although the call was rejected"); break; }
          continue;
        }
        else if (k == "copy") { if (&x == &y) continue; y.p.reset(new MIP_Problem(*x.p)); y.m = x.m; }
        else if (k == "assign") { *y.p = *x.p; y.m = x.m; }
        else if (k == "swap") { using std::swap; swap(*x.p, *y.p); std::swap(x.m, y.m); }
        else if (k == "clear") { x.p->clear(); x.m = Model(); }
        else if (k == "dump_load") { std::ostringstream o; x.p->ascii_dump(o); std::istringstream in(o.str()); std::unique_ptr<MIP_Problem> z(new MIP_Problem(op.mod(2, 3)));
          if (!z->ascii_load(in)) { ctx.violation("C15", "load-fails", kl(op, ""), "MIP_Problem::ascii_load failed on its own dump"); continue; }
          std::ostringstream o2; z->ascii_dump(o2);
          if (o2.str() != o.str()) { ctx.violation("C15", "redump", kl(op, ""), "MIP_Problem re-dump differs"); continue; }
          if (!z->OK()) { ctx.violation("C15", "load-ok", kl(op, ""), "loaded MIP_Problem fails OK()"); continue; }
          x.p = std::move(z); ctx.stat("mip.reloaded"); }
        else continue;
      }
      catch (const std::invalid_argument& e) { ctx.stat("mip.rejected"); ctx.log("rejected"); continue; }
      catch (const oracle::OracleError& e) { ctx.violation("C06", "internal-oracle-error", kl(op, ""), e.what()); break; }
      catch (const std::exception& e) { ctx.violation("C06", "unexpected-exception", kl(op, typeid(e).name()), e.what()); break; }
      ++ctx.ops_done;
      if (!x.p->OK()) { ctx.violation("C06", "ok", kl(op, "after-op"), "OK() false after " + k); break; }
      if (x.p->space_dimension() != x.m.dim) { ctx.violation("C06", "model-dim", kl(op, ""), "space dimension differs from the model"); break; }
    }
    ctx.nontrivial = ctx.ops_done >= 5 && ctx.stats.count("mip.fresh_twins");
  }
};
}  // namespace

int main(int argc, char** argv) { MipHarness h; return kit_main(argc, argv, h); }
