// Harness `wd` (C19): time watchdogs under a simulated ITIMER_PROF whose
// expiries are delivered at every statement boundary of the bookkeeping code,
// and weight watchers under arbitrary create/destroy/add/check histories.
// Real code: Watchdog.cc, Watchdog_inlines.hh, Pending_List, EList, Time,
// Handler, Threshold_Watcher.  Stubs: setitimer/getitimer/sigaction, signal
// delivery (synchronous call of the registered handler at a yield point).
#include "kit/simclock.hh"
#include "kit/ppl_all.hh"
#include "kit/runner.hh"

namespace PPL = Parma_Polyhedra_Library;
using PPL::Watchdog;
typedef PPL::Threshold_Watcher<PPL::Weightwatch_Traits> WWatcher;

namespace {

const int NSLOT = 6;
const long CS = 10000;  // microseconds per centisecond

struct MyFlag { int priority() const { return 0; } };

struct WdRec {
  int slot, kind;
  long entry, ret, delay;
  long destroyed_entry = -1, destroyed_ret = -1;
  long fired_at = -1;
  int fires = 0;
  long lag_at_entry = 0;
};

struct WwRec {
  int slot;
  unsigned long long threshold;
  bool alive = true;
  int fires = 0;
};

struct World {
  Ctx* ctx = nullptr;
  std::string dom;
  // time watchdogs
  Watchdog* wd[NSLOT];
  int cur[NSLOT];
  const MyFlag* volatile holder[NSLOT];
  MyFlag flag[NSLOT];
  std::vector<WdRec> recs;
  std::vector<long> deferrals;      // instants at which an expiry was delivered inside a critical section
  Rng yrng;
  long max_delta = 8;
  bool in_client_op = false;
  std::string cur_kind = "-";
  // weight watchers
  WWatcher* ww[NSLOT];
  int wcur[NSLOT];
  std::vector<WwRec> wrecs;
  std::vector<int> fired_in_check;

  World() : yrng(1) {
    for (int i = 0; i < NSLOT; ++i) { wd[i] = nullptr; cur[i] = -1; holder[i] = nullptr; ww[i] = nullptr; wcur[i] = -1; }
  }

  std::string klass(const std::string& what) const { return dom + "|" + cur_kind + "|-|" + what; }

  void on_fire(int slot) {
    long now = g_clock.now;
    int id = cur[slot];
    ctx->log((u64) (1000 + slot)); ctx->log((u64) now);
    if (id < 0) {
      ctx->violation("C19", "after-death", klass("slot-free"), "action ran at t=" + std::to_string(now) + "us for a slot whose watchdog is destroyed");
      return;
    }
    WdRec& r = recs[(size_t) id];
    ++r.fires;
    if (r.fires > 1) {
      ctx->violation("C19", "at-most-once", klass("twice"), "watchdog #" + std::to_string(id) + " fired again at t=" + std::to_string(now));
      return;
    }
    r.fired_at = now;
    ctx->stat("wd.fired");
    long due = r.entry + r.delay;
    if (now < due) {
      long d = 0;
      for (long t : deferrals) if (t >= r.entry - 2000000) ++d;
      ctx->violation("C19", "never-early", klass(std::string(deferrals.empty() ? "nodeferral" : "afterdeferral")),
                     "watchdog #" + std::to_string(id) + " delay=" + std::to_string(r.delay) + "us created at t=" + std::to_string(r.entry)
                     + " fired at t=" + std::to_string(now) + " (" + std::to_string(due - now) + "us early)");
      return;
    }
    // bounded lateness: one centisecond per deferral that the model saw
    // while this watchdog was pending, plus the measured clock lag.
    long d = 0;
    // every deferral (expiry delivered inside a critical section) postpones the
    // handler by reschedule_time = 1 cs and makes the library's clock trail by
    // as much until the next fresh start; count all of them, conservatively.
    for (long t : deferrals) if (t <= now) ++d;
    long lag = g_clock.total_lag;
    long bound = d * (CS + 64) + lag + (r.ret >= 0 ? r.ret - r.entry : 64) + 64 + g_clock.jitter_max;
    if (now - due > bound) {
      ctx->violation("C19", "late", klass(std::string(deferrals.empty() ? "nodeferral" : "afterdeferral")),
                     "watchdog #" + std::to_string(id) + " delay=" + std::to_string(r.delay) + "us created at t=" + std::to_string(r.entry)
                     + " fired at t=" + std::to_string(now) + ": " + std::to_string(now - due) + "us late, bound " + std::to_string(bound)
                     + " (deferrals=" + std::to_string(d) + ")");
    }
  }

  void poll_flags() {
    for (int s = 0; s < NSLOT; ++s)
      if (holder[s] != nullptr) { holder[s] = nullptr; on_fire(s); }
  }

  long pending_len() {
    long n = 0;
    for (auto i = Watchdog::pending.begin(); i != Watchdog::pending.end(); ++i) { if (++n > 64) break; }
    return n;
  }
};

World* W = nullptr;

template <int I> void fire_fn() { if (W) W->on_fire(I); }
typedef void (*Fn)();
Fn fire_fns[NSLOT] = { fire_fn<0>, fire_fn<1>, fire_fn<2>, fire_fn<3>, fire_fn<4>, fire_fn<5> };

template <int I> void ww_fn() { if (W) W->fired_in_check.push_back(I); }
Fn ww_fns[NSLOT] = { ww_fn<0>, ww_fn<1>, ww_fn<2>, ww_fn<3>, ww_fn<4>, ww_fn<5> };

void yield_hook(int site) {
  if (!W || !g_clock.active) return;
  Ctx& c = *W->ctx;
  if (g_clock.in_handler) { c.stat("wd.yield_in_handler"); return; }
  g_clock.now += (long) W->yrng.below((u64) W->max_delta + 1);
  char buf[96];
  snprintf(buf, sizeof buf, "y%d|p%ld|a%d|c%d", site, W->pending_len(), (int) g_clock.armed, (int) Watchdog::in_critical_section);
  c.state(buf);
  bool was_due = g_clock.due();
  if (was_due) { snprintf(buf, sizeof buf, "wd.deliver_at_site.%d", site); c.stat(buf); }
  g_clock.deliver_if_due();
}

struct WdHarness : Harness {
  const char* name() const override { return "wd"; }
  int child_seconds() const override { return 30; }

  Plan generate(Rng& r, const std::string&, bool thorough) override {
    Plan p;
    bool ww = r.chance(20);
    p.domain = ww ? "weight" : "time";
    if (ww) {
      p.knobs["wstart"] = r.range(0, 2);
      long n = r.range(6, thorough ? 60 : 30);
      for (long i = 0; i < n; ++i) {
        Op op;
        int k = (int) r.below(100);
        if (k < 30) { op.kind = "ww_create"; op.a = { r.range(0, NSLOT - 1), r.chance(3) ? 0 : r.range(1, 40), r.range(0, 1) }; }
        else if (k < 45) { op.kind = "ww_destroy"; op.a = { r.range(0, NSLOT - 1) }; }
        else if (k < 75) { op.kind = "ww_add"; op.a = { r.chance(50) ? r.range(1, 5) : r.range(1, 60) }; }
        else { op.kind = "ww_check"; }
        p.ops.push_back(op);
      }
      return p;
    }
    p.knobs["jitter"] = r.chance(25) ? r.range(1, 3000) : 0;
    p.knobs["maxdelta"] = r.chance(15) ? 0 : r.range(1, 8);
    long n = r.range(6, thorough ? 60 : 30);
    static const long delays[] = { 1, 1, 2, 3, 5, 10, 30, 100, 150 };
    for (long i = 0; i < n; ++i) {
      Op op;
      int k = (int) r.below(100);
      if (k < 35) {
        op.kind = "create";
        long cs = r.chance(70) ? delays[r.below(9)] : r.range(1, 300);
        op.a = { r.range(0, NSLOT - 1), cs, r.range(0, 1), (long) r.below(1000000) };
      }
      else if (k < 60) { op.kind = "destroy"; op.a = { r.range(0, NSLOT - 1), (long) r.below(1000000) }; }
      else {
        op.kind = "idle";
        if (r.chance(50)) op.a = { 1, r.range(-30, 10) };
        else {
          long us = r.chance(50) ? r.range(0, 20000) : r.range(0, 2000000);
          op.a = { 0, us };
        }
      }
      p.ops.push_back(op);
    }
    return p;
  }

  void run_time(const Plan& plan, Ctx& ctx) {
    World w; W = &w; w.ctx = &ctx; w.dom = plan.domain;
    w.max_delta = plan.knob("maxdelta", 8) % 9; if (w.max_delta < 0) w.max_delta = 0;
    Rng jr(mix64(plan.knob("jitter"), 77));
    g_clock = SimClock();
    g_clock.jitter_max = std::max(0L, plan.knob("jitter", 0)) % 5000;
    g_clock.draw_late = [&]() { return (long) jr.below((u64) g_clock.jitter_max + 1); };
    g_clock.on_deliver_begin = [&](long, long at) {
      if (Watchdog::in_critical_section) { w.deferrals.push_back(at); ctx.stat("wd.delivered_in_critical_section"); ++ctx.faults_fired; }
      else ctx.stat(w.in_client_op ? "wd.delivered_in_bookkeeping" : "wd.delivered_while_idle");
      if (w.in_client_op && !Watchdog::in_critical_section) ++ctx.faults_fired;
    };
    g_clock.on_deliver_end = [&](long, long) { w.poll_flags(); };
    g_clock.active = true;
    PPL::verif_yield_hook = yield_hook;
    long idx = 0;
    for (const Op& op : plan.ops) {
      ctx.begin_op(idx++, op);
      w.cur_kind = op.kind;
      ctx.log(op.kind); ctx.log((u64) g_clock.now);
      if (op.kind == "create") {
        int s = (int) op.mod(0, NSLOT);
        if (w.wd[s] != nullptr) { ctx.stat("wd.create_skipped"); continue; }
        long cs = 1 + op.mod(1, 300);
        int kind = (int) op.mod(2, 2);
        w.yrng.reseed((u64) op.arg(3) + 17);
        g_clock.last_get = -1;
        WdRec r; r.slot = s; r.kind = kind; r.delay = cs * CS; r.entry = g_clock.now; r.ret = -1; r.lag_at_entry = g_clock.total_lag;
        w.recs.push_back(r);
        w.cur[s] = (int) w.recs.size() - 1;
        w.holder[s] = nullptr;
        w.in_client_op = true;
        if (kind == 0) w.wd[s] = new Watchdog(cs, fire_fns[s]);
        else w.wd[s] = new Watchdog(cs, w.holder[s], w.flag[s]);
        w.in_client_op = false;
        w.recs[(size_t) w.cur[s]].ret = g_clock.now;
        w.poll_flags();
        ctx.stat("wd.created");
      }
      else if (op.kind == "destroy") {
        int s = (int) op.mod(0, NSLOT);
        if (w.wd[s] == nullptr) { ctx.stat("wd.destroy_skipped"); continue; }
        w.yrng.reseed((u64) op.arg(1) + 29);
        g_clock.last_get = -1;
        WdRec& r = w.recs[(size_t) w.cur[s]];
        r.destroyed_entry = g_clock.now;
        w.in_client_op = true;
        delete w.wd[s];
        w.in_client_op = false;
        w.wd[s] = nullptr;
        w.poll_flags();           // a flag raised during the destructor is legitimate
        r.destroyed_ret = g_clock.now;
        w.cur[s] = -1;
        ctx.stat(r.fires ? "wd.destroyed_after_firing" : "wd.destroyed_pending");
      }
      else if (op.kind == "idle") {
        long us;
        if (op.mod(0, 2) == 1 && g_clock.armed) {
          long off = op.arg(1) % 64;
          us = g_clock.deadline + off - g_clock.now;
          if (us < 0) us = 0;
          ctx.stat("wd.idle_to_deadline_edge");
        }
        else us = op.mod(1, 3000000);
        g_clock.idle(us);
        w.poll_flags();
      }
      else continue;
      ++ctx.ops_done;
      char buf[64]; snprintf(buf, sizeof buf, "end|p%ld|a%d", w.pending_len(), (int) g_clock.armed);
      ctx.state(buf);
    }
    // Quiescence: the client stops; expiries are delivered as they come.
    Op fin; fin.kind = "quiesce"; ctx.begin_op(idx, fin); w.cur_kind = "quiesce";
    int guard = 0;
    while (g_clock.armed && guard < 2000) { g_clock.idle(g_clock.deadline + g_clock.late - g_clock.now); w.poll_flags(); ++guard; }
    if (g_clock.armed) {
      ctx.violation("C19", "liveness", w.klass("timer-rearmed-forever"),
                    "timer still armed after 2000 expiries with an idle client; in_critical_section=" + std::to_string((int) Watchdog::in_critical_section));
    }
    else {
      for (int s = 0; s < NSLOT; ++s) {
        if (w.wd[s] == nullptr) continue;
        WdRec& r = w.recs[(size_t) w.cur[s]];
        if (r.fires == 0)
          ctx.violation("C19", "liveness", w.klass(std::string("lost-wakeup") + (w.deferrals.empty() ? "|nodeferral" : "|afterdeferral")),
                        "watchdog #" + std::to_string(w.cur[s]) + " created at t=" + std::to_string(r.entry) + " delay=" + std::to_string(r.delay)
                        + "us never fired; timer disarmed at t=" + std::to_string(g_clock.now));
      }
    }
    // deadline order among those that fired
    for (size_t i = 0; i < w.recs.size(); ++i)
      for (size_t j = 0; j < w.recs.size(); ++j) {
        const WdRec& a = w.recs[i]; const WdRec& b = w.recs[j];
        if (a.fires == 0 || b.fires == 0 || a.ret < 0 || b.ret < 0) continue;
        // the library's notion of a deadline may trail the model's by the measured lag
        if (a.ret + a.delay < b.entry + b.delay - g_clock.total_lag - (long) w.deferrals.size() * (CS + 64) && a.fired_at > b.fired_at)
          ctx.violation("C19", "order", w.klass(w.deferrals.empty() ? "nodeferral" : "afterdeferral"),
                        "watchdog #" + std::to_string(i) + " (deadline " + std::to_string(a.entry + a.delay) + ") fired at " + std::to_string(a.fired_at)
                        + " after #" + std::to_string(j) + " (deadline " + std::to_string(b.entry + b.delay) + ") fired at " + std::to_string(b.fired_at));
      }
    for (int s = 0; s < NSLOT; ++s) if (w.wd[s]) { delete w.wd[s]; w.wd[s] = nullptr; w.cur[s] = -1; }
    g_clock.idle(5000000);
    w.poll_flags();
    ctx.log((u64) g_clock.now);
    ctx.stat("sim.time_us", g_clock.now);
    ctx.stat("sim.deliveries", g_clock.deliveries);
    ctx.stat("sim.setitimer", g_clock.setitimers);
    ctx.stat("sim.getitimer", g_clock.getitimers);
    ctx.nontrivial = ctx.ops_done >= 5 && g_clock.deliveries >= 1;
    g_clock.active = false;
    PPL::verif_yield_hook = nullptr;
    W = nullptr;
  }

  void run_weight(const Plan& plan, Ctx& ctx) {
    typedef unsigned long long ull;
    World w; W = &w; w.ctx = &ctx; w.dom = plan.domain;
    ull start = 0;
    switch (plan.knob("wstart", 0) % 3) { case 1: start = (1ULL << 63) - 50; break; case 2: start = ~0ULL - 100; break; default: break; }
    PPL::Weightwatch_Traits::weight = start;
    long idx = 0;
    for (const Op& op : plan.ops) {
      ctx.begin_op(idx++, op);
      w.cur_kind = op.kind;
      ctx.log(op.kind);
      ull weight = PPL::Weightwatch_Traits::weight;
      if (op.kind == "ww_create") {
        int s = (int) op.mod(0, NSLOT);
        if (w.ww[s] != nullptr) continue;
        ull delta = (ull) op.mod(1, 41);
        int kind = (int) op.mod(2, 2);
        (void) kind;
        try {
          w.ww[s] = new WWatcher(delta, ww_fns[s]);
        }
        catch (const std::invalid_argument&) {
          if (delta != 0)
            ctx.violation("C19", "ww-create", w.klass("rejected"), "watcher with delta " + std::to_string(delta) + " rejected as already reached");
          ctx.stat("ww.create_rejected_delta0");
          continue;
        }
        WwRec r; r.slot = s; r.threshold = weight + delta;
        w.wrecs.push_back(r); w.wcur[s] = (int) w.wrecs.size() - 1;
        ctx.stat("ww.created");
      }
      else if (op.kind == "ww_destroy") {
        int s = (int) op.mod(0, NSLOT);
        if (w.ww[s] == nullptr) continue;
        delete w.ww[s]; w.ww[s] = nullptr;
        w.wrecs[(size_t) w.wcur[s]].alive = false; w.wcur[s] = -1;
        ctx.stat("ww.destroyed");
      }
      else if (op.kind == "ww_add") {
        ull amt = (ull) (1 + op.mod(0, 60));
        PPL::Weightwatch_Traits::weight += amt;
      }
      else if (op.kind == "ww_check") {
        w.fired_in_check.clear();
        PPL::maybe_abandon();
        std::set<int> got(w.fired_in_check.begin(), w.fired_in_check.end());
        if (got.size() != w.fired_in_check.size())
          ctx.violation("C19", "ww-at-most-once", w.klass("twice-in-one-check"), "an action ran twice in one check");
        for (size_t i = 0; i < w.wrecs.size(); ++i) {
          WwRec& r = w.wrecs[i];
          bool fired_now = got.count(r.slot) && w.wcur[r.slot] == (int) i;
          bool reached = (weight - r.threshold) < (1ULL << 63);
          bool expect = r.alive && r.fires == 0 && reached;
          if (fired_now) { ++r.fires; ctx.stat("ww.fired"); ++ctx.faults_fired; }
          if (expect && !fired_now)
            ctx.violation("C19", "ww-missed", w.klass(weight == r.threshold ? "weight==threshold" : "weight>threshold"),
                          "weight " + std::to_string(weight) + " has reached threshold " + std::to_string(r.threshold) + " but the watcher did not trigger at this check");
          if (fired_now && !expect)
            ctx.violation("C19", "ww-spurious", w.klass(r.fires > 1 ? "again" : "not-reached"),
                          "watcher triggered at weight " + std::to_string(weight) + " threshold " + std::to_string(r.threshold) + " fires=" + std::to_string(r.fires));
        }
        for (int s : got) if (w.wcur[s] < 0) ctx.violation("C19", "ww-after-death", w.klass("slot-free"), "action ran for a destroyed watcher");
        char buf[64]; snprintf(buf, sizeof buf, "wwcheck|alive%zu|fired%zu", (size_t) std::count_if(w.wrecs.begin(), w.wrecs.end(), [](const WwRec& r) { return r.alive && !r.fires; }), got.size());
        ctx.state(buf);
      }
      else continue;
      ++ctx.ops_done;
      ctx.log((u64) PPL::Weightwatch_Traits::weight);
    }
    for (int s = 0; s < NSLOT; ++s) if (w.ww[s]) { delete w.ww[s]; w.ww[s] = nullptr; }
    if (PPL::Weightwatch_Traits::check_function != nullptr)
      ctx.violation("C19", "ww-global", w.klass("check_function-left-set"), "no watcher alive but check_function is still installed");
    ctx.nontrivial = ctx.ops_done >= 5 && ctx.faults_fired >= 1;
    W = nullptr;
  }

  void run(const Plan& plan, Ctx& ctx) override {
    if (plan.domain == "weight") run_weight(plan, ctx);
    else run_time(plan, ctx);
  }
};

}  // namespace

int main(int argc, char** argv) {
  WdHarness h;
  return kit_main(argc, argv, h);
}
