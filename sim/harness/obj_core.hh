// Harness `obj`: operation histories over a pool of domain objects, with the
// generic monitors of DESIGN.md §3.5 (M-ok, M-const, M-bystander, M-twin,
// M-fault) and the snapshot/restart protocol of C15.  One template over the
// domain; the per-family binaries instantiate it.
#ifndef OBJ_CORE_HH
#define OBJ_CORE_HH
#include "kit/ppl_all.hh"
#include "kit/faults.hh"
#include "kit/runner.hh"
#include "oracle/point_eval.hh"
#include <cfenv>
#include <memory>
#include <sstream>

namespace obj {
namespace PPL = Parma_Polyhedra_Library;
using PPL::Variable; using PPL::Linear_Expression; using PPL::Constraint; using PPL::Constraint_System;
using PPL::Generator; using PPL::Generator_System; using PPL::Congruence; using PPL::Congruence_System;
using PPL::Grid_Generator; using PPL::Grid_Generator_System; using PPL::Coefficient; using PPL::Variables_Set;
using PPL::dimension_type;
using oracle::QPoint;

enum Kind { POLY, SHAPE, BOX, GRID, PSET, PROD };

template <class D> struct Dom;   // name(), kind, nnc, oct, rational
// domains over floating point numbers (specialised to true in obj_float.cc): results depend on the rounding along
// each code path, and closure is approximated (a second closure pass may tighten the matrix further)
template <class D> struct Inexact { static constexpr bool value = false; };

// ---------------------------------------------------------------- payload
inline Coefficient coef(long v) {
  switch (v) {
  case 100: return Coefficient(1) << 31;
  case 101: return -(Coefficient(1) << 31);
  case 102: return (Coefficient(1) << 64) + 1;
  case 103: return -((Coefficient(1) << 64) + 1);
  default: break;
  }
  long m = v % 8;   // [-7,7]
  return Coefficient(m);
}

struct Cur {
  const Op& op; size_t i; int W;
  Cur(const Op& o, size_t start, int w) : op(o), i(start), W(w) {}
  long next() { return op.arg(i++); }
  long mod(long n) { long v = next(); if (n <= 0) return 0; v %= n; return v < 0 ? v + n : v; }
  // fixed-width block: W coefficients then the inhomogeneous term
  Linear_Expression expr(dimension_type dim, bool inhomo = true) {
    Linear_Expression e;
    for (int j = 0; j < W; ++j) { long v = next(); if ((dimension_type) j < dim) { Coefficient c = coef(v); if (c != 0) e += c * Variable(j); } }
    long b = next();
    if (inhomo) e += coef(b);
    if (dim > 0 && e.space_dimension() < dim) e.set_space_dimension(dim);
    return e;
  }
};
inline void gen_expr(Rng& r, Op& op, int W, bool big) {
  for (int j = 0; j <= W; ++j) {
    long v;
    if (big && r.chance(4)) v = 100 + (long) r.below(4);
    else if (r.chance(35)) v = 0;
    else v = r.range(-5, 5);
    op.a.push_back(v);
  }
}

// ---------------------------------------------------------------- environment
template <class D> struct Env {
  std::vector<D*> o;               // positional operands (may alias)
  D& at(size_t i) { return *o[i]; }
};

enum Flags : unsigned {
  F_OBS = 1,        // receiver is const
  F_VAL = 2,        // result is a function of the operands' point sets (twin-comparable value)
  F_ANS = 4,        // answer string is a function of the point sets
  F_SAMEDIM = 8,    // all operands must have the same dimension
  F_NNC = 16,       // needs NNC (strict) support
  F_FAULT = 32,     // worth injecting faults into
  F_NOSELF = 64,    // not meaningful with aliased operands
  F_SOUND = 128,    // twin results need not be equal (e.g. precision is not promised)
  F_CONSUMES = 256, // argument operand is left unspecified (recycling / m_swap)
  F_SYNT = 512      // the answer is a function of the syntactic representation (number of disjuncts): after a reload it is
                    // compared by the re-dump only; later it legitimately depends on the lazy state of operands that the
                    // original shares copy-on-write with other objects and the replica does not
};

template <class D> struct Desc {
  const char* name;
  int nslots;
  unsigned flags;
  int weight;
  void (*gen)(Rng&, Op&, int W);
  std::function<std::string()> (*prep)(Env<D>&, Cur&);
};

inline std::string b2s(bool b) { return b ? "T" : "F"; }
template <class T> inline std::string str(const T& x) { std::ostringstream o; o << x; return o.str(); }

// ---------------------------------------------------------------- membership, fingerprints
template <class D> inline bool member_of(D& priv_copy, const QPoint& p) {
  if constexpr (Dom<D>::kind == GRID) return oracle::sat_all(priv_copy.congruences(), p);
  else if constexpr (Dom<D>::kind == PSET) {
    // union of the disjuncts: each disjunct is deep-copied, so that evaluating
    // it never touches a representation shared with another powerset
    typedef typename Dom<D>::base_type B;
    const D& c = priv_copy;
    for (typename D::const_iterator i = c.begin(), e = c.end(); i != e; ++i) { B d(i->pointset()); if (member_of(d, p)) return true; }
    return false;
  }
  else if constexpr (Dom<D>::kind == PROD) {
    // unreduced components, read directly (the harness is compiled with -fno-access-control)
    typename Dom<D>::d1_type a(priv_copy.d1); typename Dom<D>::d2_type b(priv_copy.d2);
    return member_of(a, p) && member_of(b, p);
  }
  else return oracle::sat_all(priv_copy.constraints(), p);
}

struct Fp {
  dimension_type dim = 0;
  std::vector<bool> bits;
  bool operator==(const Fp& y) const { return dim == y.dim && bits == y.bits; }
  bool operator!=(const Fp& y) const { return !(*this == y); }
  u64 hash() const { u64 h = dim; for (bool b : bits) h = h * 3 + (b ? 1 : 2); return h; }
};

struct Probes {
  std::map<dimension_type, std::vector<QPoint> > pts;
  u64 seed = 1;
  std::vector<QPoint>& of(dimension_type dim) {
    auto it = pts.find(dim);
    if (it != pts.end()) return it->second;
    std::vector<QPoint>& v = pts[dim];
    Rng r(mix64(seed, dim));
    size_t n = dim == 0 ? 1 : 40;
    for (size_t k = 0; k < n; ++k) {
      QPoint p(dim);
      for (dimension_type i = 0; i < dim; ++i) {
        long den = r.chance(60) ? 1 : r.range(2, 3);
        p[i] = mpq_class(r.range(-6 * den, 6 * den), den);
        p[i].canonicalize();
      }
      v.push_back(p);
    }
    return v;
  }
  void add(dimension_type dim, const QPoint& p) {
    std::vector<QPoint>& v = of(dim);
    if (v.size() >= 96) return;
    for (auto& q : v) if (q == p) return;
    v.push_back(p);
  }
};

template <class D> inline Fp fingerprint(const D& x, Probes& pr) {
  FaultPause pause;
  D c(x);
  Fp f; f.dim = c.space_dimension();
  std::vector<QPoint>& v = pr.of(f.dim);
  f.bits.resize(v.size());
  if constexpr (Dom<D>::kind == GRID) {
    const Congruence_System& cgs = c.congruences();
    for (size_t i = 0; i < v.size(); ++i) f.bits[i] = oracle::sat_all(cgs, v[i]);
  }
  else if constexpr (Dom<D>::kind == PSET) {
    typedef typename Dom<D>::base_type B;
    const D& cc = c;
    std::vector<std::unique_ptr<B> > ds;
    for (typename D::const_iterator i = cc.begin(), e = cc.end(); i != e; ++i) ds.emplace_back(new B(i->pointset()));
    for (size_t i = 0; i < v.size(); ++i) { bool in = false; for (auto& d : ds) if (member_of(*d, v[i])) { in = true; break; } f.bits[i] = in; }
  }
  else if constexpr (Dom<D>::kind == PROD) {
    typename Dom<D>::d1_type a(c.d1); typename Dom<D>::d2_type b(c.d2);
    for (size_t i = 0; i < v.size(); ++i) f.bits[i] = member_of(a, v[i]) && member_of(b, v[i]);
  }
  else {
    const Constraint_System& cs = c.constraints();
    for (size_t i = 0; i < v.size(); ++i) f.bits[i] = oracle::sat_all(cs, v[i]);
  }
  return f;
}

template <class D> inline std::string dump_of(const D& x) { std::ostringstream o; x.ascii_dump(o); return o.str(); }

// What a bystander must keep: its exact dump text, except for powersets, whose
// disjuncts may share a copy-on-write representation with an involved object
// (a lazy update of a shared disjunct legitimately changes the text): there
// only the denoted set (probe points) is compared.
template <class D> inline std::string bystander_sig(const D& x, Probes& pr) {
  if constexpr (Dom<D>::kind == PSET) { Fp f = fingerprint(x, pr); return std::to_string(f.dim) + ":" + std::to_string(f.hash()); }
  else return dump_of(x);
}

// context for definition checks done inside operation closures
struct DefCtx { Ctx* ctx = nullptr; Probes* probes = nullptr; const Op* op = nullptr; std::string dom, prop, suffix; bool active = false; };
static DefCtx g_def;
inline void def_violation(const std::string& monitor, const std::string& detail) {
  if (!g_def.ctx || !g_def.active) return;
  g_def.ctx->violation(g_def.prop, monitor, g_def.dom + "|" + (g_def.op ? g_def.op->kind : "?") + "|-" + (g_def.suffix.empty() ? "" : "|" + g_def.suffix), detail);
}

// ---- pointwise definition checks (active for C01 C04 C05 C09 C10): the membership of every
// probe point in a result must be what the mathematical definition dictates.
typedef std::vector<bool> Bits;
template <class D> inline Bits defbits(const D& x) { if (!g_def.active || !g_def.probes) return Bits(); return fingerprint(x, *g_def.probes).bits; }
inline bool bits_subset(const Bits& a, const Bits& b) { if (a.size() != b.size()) return true; for (size_t i = 0; i < a.size(); ++i) if (a[i] && !b[i]) return false; return true; }
inline std::string probe_str(dimension_type dim, size_t i) { if (!g_def.probes) return "?"; auto& v = g_def.probes->of(dim); return i < v.size() ? oracle::show(v[i]) : std::string("?"); }
inline void def_expect_eq(const char* what, dimension_type dim, const Bits& post, const Bits& want) {
  if (!g_def.active || post.size() != want.size()) return;
  for (size_t k = 0; k < post.size(); ++k) if (post[k] != want[k]) {
    def_violation(std::string("def-") + what, std::string("point ") + probe_str(dim, k) + (post[k] ? " is in the result but not in the set the definition dictates" : " is lost: the definition puts it in the result")); return; }
}
inline void def_expect_between(const char* what, dimension_type dim, const Bits& lower, const Bits& post, const Bits& upper) {
  if (!g_def.active || post.size() != lower.size() || post.size() != upper.size()) return;
  for (size_t k = 0; k < post.size(); ++k) {
    if (lower[k] && !post[k]) { def_violation(std::string("def-") + what, "point " + probe_str(dim, k) + " is lost"); return; }
    if (post[k] && !upper[k]) { def_violation(std::string("def-") + what, "point " + probe_str(dim, k) + " is gained"); return; }
  }
}
inline void def_expect_sub(const char* what, dimension_type dim, const Bits& lower, const Bits& post) {
  if (!g_def.active || post.size() != lower.size()) return;
  for (size_t k = 0; k < post.size(); ++k) if (lower[k] && !post[k]) { def_violation(std::string("def-") + what, "point " + probe_str(dim, k) + " is lost"); return; }
}
inline mpq_class eval_le(const Linear_Expression& le, const QPoint& p) {
  mpq_class v(le.inhomogeneous_term());
  for (dimension_type j = 0; j < le.space_dimension() && j < p.size(); ++j) v += mpq_class(le.coefficient(Variable(j))) * p[j];
  return v;
}

inline std::string status_of_dump(const std::string& d) {
  // first three lines with digits removed: the status words
  std::string s; int lines = 0;
  for (char c : d) {
    if (c == '\n') { if (++lines >= 3) break; s += '/'; continue; }
    if (c >= '0' && c <= '9') continue;
    s += c;
  }
  return s;
}

// canonical ("eager") re-build of a value from its own minimized description
template <class D> inline std::unique_ptr<D> canonical(const D& x, int variant) {
  D c(x);
  dimension_type dim = c.space_dimension();
  if constexpr (Dom<D>::kind == PSET) {
    typedef typename Dom<D>::base_type B;
    std::unique_ptr<D> t(new D(dim, PPL::EMPTY));
    std::vector<std::unique_ptr<B> > ds;
    const D& cc = c;
    for (typename D::const_iterator i = cc.begin(), e = cc.end(); i != e; ++i) ds.push_back(canonical<B>(i->pointset(), variant));
    if (variant % 2) std::reverse(ds.begin(), ds.end());
    for (auto& d : ds) t->add_disjunct(*d);
    return t;
  }
  else if constexpr (Dom<D>::kind == PROD) {
    // same components, each re-built eagerly; the product itself is not reduced here
    // Same components, verbatim, but not (flagged as) reduced.  Re-building a component from its own
    // minimized description is NOT done here: which constraints a reduction hands over depends on the
    // syntactic form of the other component (documented: "the recipient domain selects a subset of
    // these constraints"), so answers may legitimately differ between such twins.
    (void) variant;
    std::unique_ptr<D> t(new D(c));
    t->clear_reduced_flag();
    return t;
  }
  else if constexpr (Dom<D>::kind == GRID) {
    if (variant % 2 == 1) {
      if (c.is_empty()) return std::unique_ptr<D>(new D(dim, PPL::EMPTY));
      std::unique_ptr<D> t(new D(c.minimized_grid_generators()));
      if (t->space_dimension() < dim) t->add_space_dimensions_and_embed(dim - t->space_dimension());
      return t;
    }
    std::unique_ptr<D> t(new D(dim, PPL::UNIVERSE));
    t->add_congruences(c.minimized_congruences());
    return t;
  }
  else if constexpr (Dom<D>::kind == POLY) {
    if (variant % 2 == 1) {
      if (c.is_empty()) return std::unique_ptr<D>(new D(dim, PPL::EMPTY));
      Generator_System gs = c.minimized_generators();
      std::unique_ptr<D> t(new D(gs));
      return t;
    }
    std::unique_ptr<D> t(new D(dim, PPL::UNIVERSE));
    t->add_constraints(c.minimized_constraints());
    return t;
  }
  else {
    std::unique_ptr<D> t(new D(dim, PPL::UNIVERSE));
    if (c.is_empty()) { t.reset(new D(dim, PPL::EMPTY)); return t; }
    t->add_constraints(variant % 2 ? c.constraints() : c.minimized_constraints());
    return t;
  }
}

// ---- cost guard for geometrically_covers/equals on powersets of grids.
// check_containment(yj, x) (Pointset_Powerset.cc) splits yj, for every disjunct xi that neither contains it nor is
// disjoint from it, into the cosets of xi∩yj in yj (one grid per coset) and omega-reduces the pieces (quadratic);
// the pieces multiply over the xi.  The number of cosets is a ratio of lattice determinants and reaches the
// hundreds for grids obtained from coefficients <= 7 by a few images/time-elapses (the documentation warns
// "This may be really expensive!"), so the call is skipped when the estimated number of pieces exceeds a budget.
inline double grid_partition_pieces(const PPL::Grid& p, const PPL::Grid& q) {
  if (p.contains(q) || p.is_disjoint_from(q)) return 0;
  PPL::Grid gr(q); double pieces = 0;
  Coefficient fn, fd, vn, vd, gn, gd;
  const Congruence_System cgs = p.minimized_congruences();
  for (Congruence_System::const_iterator i = cgs.begin(), e = cgs.end(); i != e; ++i) {
    Linear_Expression le(i->expression());
    if (!gr.frequency(le, fn, fd, vn, vd)) return pieces;            // a line of q crosses the congruence: q is kept whole
    gr.add_congruence(*i);
    if (gr.is_empty()) return pieces;
    if (fn == 0) continue;                                            // constant on q: nothing to split
    if (i->is_equality()) return pieces;                              // discrete direction cut by an equality: no finite partition
    if (!gr.frequency(le, gn, gd, vn, vd)) return pieces;
    mpq_class f(fn, fd), g(gn, gd); f.canonicalize(); g.canonicalize();
    pieces += mpq_class(g / f).get_d() - 1;
  }
  return pieces;
}
template <class PS> inline double covers_cost(const PS& x, const PS& y) {   // x.geometrically_covers(y)
  PS cx(x), cy(y); const PS& rx = cx; const PS& ry = cy; double worst = 0;
  for (typename PS::const_iterator j = ry.begin(); j != ry.end(); ++j) {
    double n = 1;
    for (typename PS::const_iterator i = rx.begin(); i != rx.end(); ++i) n *= 1 + grid_partition_pieces(i->pointset(), j->pointset());
    worst = std::max(worst, n);
  }
  return worst;
}
constexpr double PSET_GRID_BUDGET = 150;
template <class D> inline bool geometric_compare_affordable(const D& a, const D& b) {
  if constexpr (std::is_same<D, PPL::Pointset_Powerset<PPL::Grid> >::value) { FaultPause pause; return covers_cost(a, b) <= PSET_GRID_BUDGET && covers_cost(b, a) <= PSET_GRID_BUDGET; }
  else return true;
}

// A copy that shares nothing with the original: powerset copies are copy-on-write at the level of
// the disjuncts, so a "deep" copy re-adds a private copy of every disjunct.
template <class D> inline std::unique_ptr<D> deep_copy(const D& x) {
  if constexpr (Dom<D>::kind == PSET) {
    typedef typename Dom<D>::base_type B;
    std::unique_ptr<D> t(new D(x.space_dimension(), PPL::EMPTY));
    for (typename D::const_iterator i = x.begin(), e = x.end(); i != e; ++i) { B d(i->pointset()); t->add_disjunct(d); }
    return t;
  }
  else return std::unique_ptr<D>(new D(x));
}

template <class D> inline bool same_value(const D& a, const D& b) {
  FaultPause pause;
  if (a.space_dimension() != b.space_dimension()) return false;
  D x(a), y(b);
  if constexpr (Dom<D>::kind == PSET) { if (!geometric_compare_affordable(x, y)) return true;   // too expensive: judged by the probe points only
    return x.geometrically_equals(y); }
  else if constexpr (Dom<D>::kind == PROD) return true;   // products: judged by probe points only (component equality is not set equality)
  else return x == y;
}

// Soft time limit for powersets of grids: their partition-based operators have no useful complexity bound
// (the number of pieces is a ratio of lattice determinants), so a run that exceeds the limit is abandoned and
// counted (kit.soft_timeout) instead of being reported as a hang.  Async-signal-safe: write + _exit only.
static int g_soft_fd = -1;
static void soft_timeout_handler(int) {
  static const char msg[] = "S\tkit.soft_timeout\t1\nH\t0\nD\t0\t0\t0\nE\n";
  if (g_soft_fd >= 0) { ssize_t w = write(g_soft_fd, msg, sizeof msg - 1); (void) w; }
  _exit(0);
}

// ---------------------------------------------------------------- the harness
template <class D> struct ObjHarness : Harness {
  typedef Desc<D> DescT;
  std::vector<DescT> table;
  std::map<std::string, const DescT*> by_name;
  std::string hname;

  ObjHarness(const char* n) : hname(n) {}
  const char* name() const override { return hname.c_str(); }
  void add(const DescT& d) { table.push_back(d); }
  void finish() { by_name.clear(); for (auto& d : table) by_name[d.name] = &d; }
  void warmup() override { fault_install_hooks(); }
  int child_seconds() const override { return 60; }   // CPU seconds (kit_cpu_deadline)
  std::vector<std::pair<std::string, long> > shrink_knobs() const override { return { { "pool", 1 } }; }

  static bool prop_uses_twin(const std::string& p) { return p == "C01" || p == "C04" || p == "C05" || p == "C09" || p == "C10"; }

  // ---------------- generation
  Plan generate(Rng& r, const std::string& prop, bool thorough) override {
    Plan p;
    p.domain = Dom<D>::name();
    int dim = (int) r.range(0, thorough ? 4 : 3);
    if (r.chance(70)) dim = (int) r.range(1, 3);
    int pool = (int) r.range(1, thorough ? 5 : 4);
    p.knobs["dim"] = dim; p.knobs["pool"] = pool; p.knobs["W"] = dim + 2;
    p.knobs["pseed"] = (long) r.below(1000000);
    bool big = r.chance(15);
    // grid powersets: Pointset_Powerset<Grid>'s partition-based operators enumerate one piece per unit of
    // the ratio between moduli, so multi-limb coefficients make them run for ever (a complexity limit, not
    // a property under test): keep coefficients small there
    if constexpr (Dom<D>::kind == PSET) { if (Dom<typename Dom<D>::base_type>::kind == GRID) big = false; }
    int W = dim + 2;
    long n = r.range(8, thorough ? 60 : 28);
    // swarm: a random subset of the table is enabled for this run
    std::vector<const DescT*> enabled;
    for (auto& d : table) {
      if (d.weight <= 0) continue;
      if (r.chance(75) || (d.flags & F_OBS)) enabled.push_back(&d);
    }
    if (enabled.empty()) for (auto& d : table) enabled.push_back(&d);
    long total = 0;
    for (auto* d : enabled) total += d->weight;
    int fault_pct = prop == "C14" ? 35 : 0;
    // no fault branches on powersets of grids: their operators have no complexity bound, and a branch that
    // runs into the wall-clock limit could not be told from a hang caused by the fault
    if constexpr (Dom<D>::kind == PSET) { if (Dom<typename Dom<D>::base_type>::kind == GRID) fault_pct = 0; }
    static const char* fkinds[] = { "alloc", "alloc", "alloc", "allocs", "abandon", "abandon", "flag", "weight" };
    for (long i = 0; i < n; ++i) {
      Op op;
      if (i < pool) {
        op.kind = "construct";
        op.a = { i, r.range(0, 5) };
        gen_construct(r, op, W, big);
        p.ops.push_back(op);
        continue;
      }
      int vs = (int) r.below(100);
      if (vs < 10) {
        static const char* vk[] = { "copy", "assign", "swap", "self_assign", "self_swap", "construct", "dump_load", "dump_load", "copy", "assign" };
        op.kind = vk[r.below(10)];
        if (prop == "C15" && r.chance(50)) op.kind = "dump_load";
        op.a = { r.range(0, pool - 1), r.range(0, pool - 1), r.range(0, 5) };
        if (op.kind == "construct") { op.a = { r.range(0, pool - 1), r.range(0, 5) }; gen_construct(r, op, W, big); }
        if (op.kind == "dump_load") op.a = { r.range(0, pool - 1), r.range(0, pool - 1), r.range(0, 3), r.range(1, 64), (long) r.below(3) };
        p.ops.push_back(op);
        continue;
      }
      long pick = (long) r.below((u64) total);
      const DescT* d = enabled[0];
      for (auto* e : enabled) { if (pick < e->weight) { d = e; break; } pick -= e->weight; }
      op.kind = d->name;
      for (int s = 0; s < d->nslots; ++s) op.a.push_back(r.range(0, pool - 1));
      if (d->nslots >= 2 && r.chance(12)) op.a[1] = op.a[0];   // aliasing
      d->gen(r, op, W);
      if (big) for (size_t j = (size_t) d->nslots; j < op.a.size(); ++j) if (r.chance(4)) op.a[j] = 100 + (long) r.below(4);
      if (fault_pct && (d->flags & F_FAULT) && r.chance(fault_pct)) {
        op.fault = fkinds[r.below(8)];
        op.fk = (long) r.below(100000);
      }
      p.ops.push_back(op);
    }
    return p;
  }

  // construct payload: mode, then up to 3 constraint-ish rows
  static void gen_construct(Rng& r, Op& op, int W, bool big) {
    int rows = (int) r.range(0, 4);
    op.a.push_back(rows);
    for (int k = 0; k < 4; ++k) { op.a.push_back(r.range(0, 5)); gen_expr(r, op, W, big); op.a.push_back(r.range(1, 4)); }
  }

  // ---------------- run state
  struct Run {
    const Plan& plan; Ctx& ctx; std::string prop;
    std::vector<std::unique_ptr<D> > pool;
    std::vector<std::unique_ptr<D> > shadow;   // C15: reloaded replicas evolving in lock-step
    Probes probes;
    int W; int dimk;
    long twin_cmp = 0;
    Run(const Plan& p, Ctx& c) : plan(p), ctx(c), prop(p.prop) {}
  };

  static std::string klass(const Op& op, const std::string& extra = "") {
    return std::string(Dom<D>::name()) + "|" + op.kind + "|" + (op.fault.empty() ? "-" : op.fault) + (extra.empty() ? "" : "|" + extra);
  }

  // Build one row-ish thing from the cursor, domain-appropriate.
  static Constraint make_constraint(Cur& c, dimension_type dim, bool allow_strict, bool native) {
    long rel = c.mod(6);
    if constexpr (Dom<D>::kind == SHAPE || Dom<D>::kind == BOX) {
      if (native && dim > 0) {
        // template constraint of the domain: +-x_i (+- x_j) rel b
        size_t save = c.i;
        long i = c.mod((long) dim), j = c.mod((long) dim);
        long si = c.mod(2), sj = c.mod(2);
        c.i = save + (size_t) c.W;
        long b = c.next() % 8;
        Linear_Expression e;
        e += (si ? -1 : 1) * Variable(i);
        if (Dom<D>::kind == SHAPE && i != j) {
          if (Dom<D>::oct) e += (sj ? -1 : 1) * Variable(j);
          else e -= (si ? -1 : 1) * Variable(j);
        }
        e.set_space_dimension(dim);
        if (rel == 0) return e == b;
        if (rel == 1 && allow_strict) return e < b;
        return e <= b;
      }
    }
    Linear_Expression e = c.expr(dim);
    if (rel == 0) return e == 0;
    if ((rel == 1 || rel == 2) && allow_strict) return e > 0;
    return e >= 0;
  }
  static Congruence make_congruence(Cur& c, dimension_type dim) {
    Linear_Expression e = c.expr(dim);
    long m = c.mod(7);
    return (e %= 0) / Coefficient(m);
  }
  static bool allow_strict() {
    if constexpr (Dom<D>::kind == POLY) return Dom<D>::nnc;
    else if constexpr (Dom<D>::kind == BOX) return Dom<D>::nnc;
    else return false;
  }

  std::unique_ptr<D> do_construct(Run& R, Cur& c) { return construct_dim(R.dimk, c); }

  static std::unique_ptr<D> construct_dim(int dim, Cur& c) {
    long mode = c.mod(6);
    long rows = c.mod(5);
    std::unique_ptr<D> x;
    if (mode == 0) { x.reset(new D((dimension_type) dim, PPL::EMPTY)); return x; }
    if (mode == 1) { x.reset(new D((dimension_type) dim, PPL::UNIVERSE)); return x; }
    if constexpr (Dom<D>::kind == PSET) {
      typedef typename Dom<D>::base_type B;
      x.reset(new D((dimension_type) dim, PPL::EMPTY));
      long n = 1 + rows % 3;
      for (long k = 0; k < n; ++k) { std::unique_ptr<B> d = ObjHarness<B>::construct_dim(dim, c); x->add_disjunct(*d); }
      return x;
    }
    else if constexpr (Dom<D>::kind == PROD) {
      x.reset(new D((dimension_type) dim, PPL::UNIVERSE));
      for (long k = 0; k < rows; ++k) {
        long t = c.mod(4);
        if (t <= 1) { Linear_Expression e = c.expr((dimension_type) dim); long rel = c.mod(3); c.next();
          x->refine_with_constraint(rel == 0 ? (e == 0) : (e >= 0)); }
        else { Congruence cg = make_congruence(c, (dimension_type) dim); c.next(); x->refine_with_congruence(cg); }
      }
      return x;
    }
    else
    if constexpr (Dom<D>::kind == POLY) {
      if (mode == 2 || mode == 3) {
        // from generators: first a point, then anything
        Generator_System gs;
        for (long k = 0; k < std::max(1L, rows); ++k) {
          long t = c.mod(6);
          Linear_Expression e = c.expr((dimension_type) dim, false);
          long den = 1 + c.mod(4);
          if (k == 0 || t <= 1) gs.insert(Generator::point(e, den));
          else if (t == 2 && Dom<D>::nnc) gs.insert(Generator::closure_point(e, den));
          else if (e.all_homogeneous_terms_are_zero()) gs.insert(Generator::point(e, den));
          else if (t == 3 || t == 2) gs.insert(Generator::ray(e));
          else gs.insert(Generator::line(e));
        }
        if (gs.space_dimension() < (dimension_type) dim) gs.set_space_dimension((dimension_type) dim);
        x.reset(new D(gs));
        return x;
      }
    }
    if constexpr (Dom<D>::kind == GRID) {
      if (mode == 2 || mode == 3) {
        Grid_Generator_System gs;
        // one generator is forced to be a point; it is NOT always the first one (a system whose first row is a
        // line or a parameter is legal and reaches code that assumes row 0 is the point)
        long nrows = std::max(1L, rows), forced = c.mod(2) ? 0 : c.mod(nrows);
        for (long k = 0; k < nrows; ++k) {
          long t = c.mod(6);
          Linear_Expression e = c.expr((dimension_type) dim, false);
          long den = 1 + c.mod(4);
          if (k == forced || t <= 1) gs.insert(PPL::grid_point(e, den));
          else if (e.all_homogeneous_terms_are_zero()) gs.insert(PPL::grid_point(e, den));
          else if (t <= 3) gs.insert(PPL::parameter(e, den));
          else gs.insert(PPL::grid_line(e));
        }
        if (gs.space_dimension() < (dimension_type) dim) gs.set_space_dimension((dimension_type) dim);
        x.reset(new D(gs));
        return x;
      }
      Congruence_System cgs;
      for (long k = 0; k < rows; ++k) { c.next(); cgs.insert(make_congruence(c, (dimension_type) dim)); }
      x.reset(new D((dimension_type) dim, PPL::UNIVERSE));
      x->add_congruences(cgs);
      return x;
    }
    else {
      Constraint_System cs;
      for (long k = 0; k < rows; ++k) { Constraint cc = make_constraint(c, (dimension_type) dim, allow_strict(), true); c.next(); cs.insert(cc); }
      x.reset(new D((dimension_type) dim, PPL::UNIVERSE));
      if (mode == 4) x->refine_with_constraints(cs); else x->add_constraints(cs);
      return x;
    }
  }

  // ---------------- checks on completed operations
  // Floating point shapes: OK() re-closes a copy and demands the same matrix, but with bounds rounded upwards closure is
  // not idempotent (the library's own comment in BD_Shape::OK() says so for the reduction test, which it skips for inexact
  // types; the closure test has the same limitation).  An OK() failure is attributed to that, and not reported, exactly
  // when the same text loaded with the closure/reduction marks cleared satisfies OK().
  static bool only_inexact_closure(const D& x) {
    if constexpr (!Inexact<D>::value || Dom<D>::kind != SHAPE) return false;
    else {
      std::string t = dump_of(x); bool changed = false;
      for (const char* f : { "+SPC", "+SPR", "+SC" }) { size_t p = t.find(f); if (p != std::string::npos && p < 64) { t[p] = '-'; changed = true; } }
      if (!changed) return false;
      D y((dimension_type) 0, PPL::UNIVERSE); std::istringstream in(t);
      return y.ascii_load(in) && y.OK();
    }
  }
  void check_ok(Run& R, const Op& op, const D& x, const char* who) {
    if (!x.OK()) {
      if (only_inexact_closure(x)) { R.ctx.stat("float.ok_false_inexact_closure"); return; }
      R.ctx.violation(R.prop, "ok", klass(op, who), std::string("OK() is false for the ") + who + " after a completed operation");
    }
    // the class invariant of the descriptions themselves (sortedness flags, row shapes), which the object's OK() does not
    // look at: checked on private copies so that the lazy state of `x' is not touched
    else if constexpr (Dom<D>::kind == POLY) {
      if (x.space_dimension() > 0) { D c1(x); bool a = c1.constraints().OK(); D c2(x); bool b = c2.generators().OK();
        if (!a || !b) R.ctx.violation(R.prop, "ok", klass(op, std::string(who) + "|system"), std::string("the ") + (!a ? "constraint" : "generator") + " system of the " + who + " fails its own OK() after a completed operation"); }
    }
    else if constexpr (Dom<D>::kind == GRID) {
      if (x.space_dimension() > 0) { D c1(x); bool a = c1.congruences().OK(); D c2(x); bool b = c2.grid_generators().OK();
        if (!a || !b) R.ctx.violation(R.prop, "ok", klass(op, std::string(who) + "|system"), std::string("the ") + (!a ? "congruence" : "generator") + " system of the " + who + " fails its own OK() after a completed operation"); }
    }
  }

  // ---------------- C15: dump -> (destroy) -> load
  void do_dump_load(Run& R, const Op& op) {
    int pool = (int) R.pool.size();
    int src = (int) op.mod(0, pool), dst = (int) op.mod(1, pool);
    long mode = op.mod(2, 4);
    D& x = *R.pool[(size_t) src];
    std::string text = dump_of(x);
    R.ctx.state("dump|" + status_of_dump(text));
    Fp fx = fingerprint(x, R.probes);
    std::unique_ptr<D> y;
    if (mode == 0 || dst == src) y.reset(new D((dimension_type) (op.mod(3, 4)), op.mod(4, 3) == 0 ? PPL::EMPTY : PPL::UNIVERSE));
    else y.reset(new D(*R.pool[(size_t) dst]));        // receiver in whatever state that object is in
    R.ctx.stat(mode == 0 || dst == src ? "c15.load_into_fresh" : "c15.load_into_live_object");
    if (y->is_empty()) R.ctx.stat("c15.receiver_was_empty");
    std::istringstream in(text);
    bool ok = y->ascii_load(in);
    if (!ok) { R.ctx.violation("C15", "load-fails", klass(op), "ascii_load returned false on text produced by ascii_dump"); return; }
    if (!y->OK() && !only_inexact_closure(*y)) { R.ctx.violation("C15", "load-ok", klass(op, y->space_dimension() == 0 ? "zero-dim" : ""), "loaded object fails OK()"); return; }
    std::string again = dump_of(*y);
    if (again != text) {
      size_t k = 0; while (k < again.size() && k < text.size() && again[k] == text[k]) ++k;
      R.ctx.violation("C15", "redump", klass(op), "re-dump differs from the original dump at byte " + std::to_string(k));
      if (getenv("VERIF_TRACE")) std::cerr << "TRACE original dump\n" << text << "\nTRACE re-dump\n" << again << "\n";
      return;
    }
    Fp fy = fingerprint(*y, R.probes);
    if (fx != fy || !same_value(x, *y)) { R.ctx.violation("C15", "value", klass(op), "loaded object denotes a different value"); return; }
    // becomes the shadow of src: from now on it must be indistinguishable
    if (R.prop == "C15") R.shadow[(size_t) src] = std::move(y);
    R.ctx.stat("c15.roundtrips");
  }

  // ---------------- fault branches (C14)
  struct BranchCounts { long allocs, abandons, live, weight; bool ok; };

  template <class F> bool in_grandchild(Run& R, const Op& op, const char* what, F body) {
    fflush(stdout); fflush(stderr);
    pid_t g = fork();
    if (g < 0) return false;
    if (g == 0) {
      kit_cpu_deadline(30);     // never leave an orphan behind
      R.ctx.reset_for_branch();
      body();
      R.ctx.flush(false);
      _exit(0);
    }
    int st = 0;
    while (waitpid(g, &st, 0) < 0 && errno == EINTR) {}
    if (R.ctx.sh) R.ctx.sh->in_branch = 0;
    if (WIFEXITED(st) && WEXITSTATUS(st) == 0) return true;
    std::string how = WIFSIGNALED(st) ? "sig" + std::to_string(WTERMSIG(st)) : "exit" + std::to_string(WEXITSTATUS(st));
    std::string mon = (WIFEXITED(st) && WEXITSTATUS(st) == 77) ? "sanitizer" : (WIFEXITED(st) && WEXITSTATUS(st) == 78) ? "terminate" : "crash";
    R.ctx.violation("C14", mon + "-in-fault-branch", klass(op, std::string(what) + "|" + how + "|" + (R.ctx.sh ? std::string(R.ctx.sh->note) : "")),
                    "fault branch died (" + how + ") during: " + (R.ctx.sh ? std::string(R.ctx.sh->note) : ""));
    return false;
  }

  // Same, for a step that may meet undefined behaviour (using an object that a fault left damaged): whatever it does to the
  // heap stays in its own process.  Returns false if the step recorded a violation or died (reported as for any branch).
  template <class F> bool in_quarantine(Run& R, const Op& op, const char* what, F body) {
    fflush(stdout); fflush(stderr);
    pid_t g = fork();
    if (g < 0) return false;
    if (g == 0) {
      kit_cpu_deadline(30);
      R.ctx.reset_for_branch();
      body();
      bool clean = R.ctx.viols.empty();
      R.ctx.flush(false);
      _exit(clean ? 0 : 3);
    }
    int st = 0;
    while (waitpid(g, &st, 0) < 0 && errno == EINTR) {}
    if (WIFEXITED(st) && WEXITSTATUS(st) == 0) return true;
    if (WIFEXITED(st) && WEXITSTATUS(st) == 3) return false;
    std::string how = WIFSIGNALED(st) ? "sig" + std::to_string(WTERMSIG(st)) : "exit" + std::to_string(WEXITSTATUS(st));
    std::string mon = (WIFEXITED(st) && WEXITSTATUS(st) == 77) ? "sanitizer" : (WIFEXITED(st) && WEXITSTATUS(st) == 78) ? "terminate" : "crash";
    R.ctx.violation("C14", mon + "-in-fault-branch", klass(op, std::string(what) + "|" + how + "|" + (R.ctx.sh ? std::string(R.ctx.sh->note) : "")),
                    "fault branch died (" + how + ") during: " + (R.ctx.sh ? std::string(R.ctx.sh->note) : ""));
    return false;
  }

  std::string leak_site(Run& R) {
    // parse the LSan report that was written to fd 2 (redirected to a file by the caller)
    return "";
  }

  void fault_branches(Run& R, const Op& op, const DescT& d, const std::vector<int>& slots, long opidx) {
    Ctx& ctx = R.ctx;
    Shared* sh = ctx.sh;
    // 1. counting branch: how many allocation instants / checkpoints does this operation have from this state?
    bool okc = in_grandchild(R, op, "count", [&]() {
      ctx.note("count: prepare");
      Env<D> env; for (int s : slots) env.o.push_back(R.pool[(size_t) s].get());
      Cur cur(op, (size_t) d.nslots, R.W);
      auto call = d.prep(env, cur);
      unsigned long long w0 = PPL::Weightwatch_Traits::weight;
      fault_arm_count();
      ctx.note("count: call");
      bool threw = false;
      try { call(); } catch (...) { threw = true; }
      long allocs = g_fault.count, abandons = g_fault.ab_count;
      fault_disarm();
      sh->scratch[0] = allocs; sh->scratch[1] = abandons;
      sh->scratch[2] = (long) (PPL::Weightwatch_Traits::weight - w0);
      sh->scratch[3] = threw ? 1 : 0;
    });
    if (!okc) return;
    BranchCounts bc{ sh->scratch[0], sh->scratch[1], 0, sh->scratch[2], sh->scratch[3] == 0 };
    if (!bc.ok) { ctx.stat("c14.skipped_op_throws_unfaulted"); return; }
    ctx.stat("c14.alloc_instants_seen", bc.allocs);
    std::vector<long> ks;
    std::string fk = op.fault;
    long space = (fk == "abandon") ? bc.abandons : (fk == "weight") ? bc.weight : bc.allocs;
    if (space <= 0) { ctx.stat("c14.fault_has_no_position." + fk); return; }
    bool enumerate = R.plan.knob("enum", 0) != 0 && (fk == "alloc" || fk == "abandon");
    if (enumerate) { long step = std::max(1L, space / 300); for (long k = op.fk % step; k < space; k += step) ks.push_back(k); }
    else ks.push_back(op.fk % space);
    for (long k : ks) {
      in_grandchild(R, op, fk.c_str(), [&]() { faulted_execution(R, op, d, slots, fk, k, opidx, enumerate); });
    }
  }

  void faulted_execution(Run& R, const Op& op, const DescT& d, const std::vector<int>& slots, const std::string& fk, long k, long opidx, bool enumerate) {
    Ctx& ctx = R.ctx;
    int pool = (int) R.pool.size();
    ctx.note("branch: copies");
    std::vector<int> uniq;
    for (int s : slots) if (std::find(uniq.begin(), uniq.end(), s) == uniq.end()) uniq.push_back(s);
    std::map<int, std::unique_ptr<D> > good;
    for (int s : uniq) good[s] = deep_copy(*R.pool[(size_t) s]);
    // powersets: an ordinary (copy-on-write) copy taken before the call, to see whether the fault reaches it
    std::map<int, std::unique_ptr<D> > cow;
    if constexpr (Dom<D>::kind == PSET) for (int s : uniq) cow[s].reset(new D(*R.pool[(size_t) s]));
    std::map<int, std::string> bystander;
    for (int s = 0; s < pool; ++s) if (!good.count(s)) bystander[s] = bystander_sig(*R.pool[(size_t) s], R.probes);
    int round0 = fegetround();
    Env<D> env; for (int s : slots) env.o.push_back(R.pool[(size_t) s].get());
    Cur cur(op, (size_t) d.nslots, R.W);
    auto call = d.prep(env, cur);
    if (getenv("VERIF_TRACE")) for (int s : uniq) std::cerr << "TRACE good copy of slot " << s << " before the call: OK=" << good[s]->OK() << "\n";
    std::string outcome = "completed";
    long live0 = g_fault.live;
    ctx.note(("branch: faulted call " + fk + "@" + std::to_string(k)).c_str());
    {
      typedef PPL::Threshold_Watcher<PPL::Weightwatch_Traits> WW;
      std::unique_ptr<WW> ww;
      if (fk == "weight") {
        ww.reset(new WW((PPL::Weightwatch_Traits::Delta) (k + 1), PPL::abandon_expensive_computations, g_sim_throwable));
        fault_arm_count();
      }
      else if (fk == "alloc") fault_arm_alloc(k, false);
      else if (fk == "allocs") fault_arm_alloc(k, true);
      else if (fk == "abandon") fault_arm_abandon(k);
      else if (fk == "flag") fault_arm_flag(k);
      try { call(); }
      catch (const std::bad_alloc&) { outcome = "bad_alloc"; }
      catch (const Sim_Abandon&) { outcome = "abandoned"; }
      catch (const std::exception& e) { outcome = std::string("other:") + e.what(); }
      catch (...) { outcome = "other:unknown"; }
      bool fired = g_fault.failed > 0 || g_fault.ab_fired || g_fault.flag_raised || (fk == "weight" && PPL::abandon_expensive_computations != nullptr);
      fault_disarm();
      fault_lower_flag();
      if (fired) ++ctx.faults_fired;
      ctx.stat("c14.fault." + fk + "." + (fired ? "fired" : "not_fired"));
      ctx.stat("c14.outcome." + fk + "." + (outcome.compare(0, 6, "other:") == 0 ? "other" : outcome));
      ctx.note("branch: watcher teardown");
    }
    call = nullptr;
    if (getenv("VERIF_TRACE")) for (int s : uniq) std::cerr << "TRACE good copy of slot " << s << " right after the call: OK=" << good[s]->OK() << "\n";
    // 1. exception type
    bool expect_alloc = fk == "alloc" || fk == "allocs";
    if (outcome.compare(0, 6, "other:") == 0)
      ctx.violation("C14", "wrong-exception", klass(op, outcome.substr(0, 60)), "injected " + fk + " surfaced as " + outcome);
    else if (outcome == "bad_alloc" && !expect_alloc)
      ctx.violation("C14", "wrong-exception", klass(op, "bad_alloc"), "bad_alloc without an injected allocation failure");
    else if (outcome == "abandoned" && expect_alloc)
      ctx.violation("C14", "wrong-exception", klass(op, "abandoned"), "abandonment without an injected abandonment");
    // 2./3. globals
    if (fegetround() != round0) ctx.violation("C14", "global-state", klass(op, "rounding"), "FPU rounding direction changed by an exceptional exit");
    if (PPL::Weightwatch_Traits::check_function != nullptr) ctx.violation("C14", "global-state", klass(op, "check_function"), "Weightwatch check_function left installed");
    if (outcome == "completed") { ctx.log("B:completed"); return; }
    // 4. bystanders
    ctx.note("branch: bystanders");
    for (auto& b : bystander)
      if (bystander_sig(*R.pool[(size_t) b.first], R.probes) != b.second)
        ctx.violation("C14", "bystander-changed", klass(op), "an object not involved in the failed call changed representation");
    // 4b. a copy made BEFORE the call shares its disjuncts with the object that was hit
    if (!cow.empty()) ctx.note("branch: copies taken before the call");
    for (auto& c : cow) {
      bool ok = c.second->OK();
      if (!ok || fingerprint(*c.second, R.probes) != fingerprint(*good[c.first], R.probes))
        ctx.violation("C14", "copy-damaged", klass(op, "shares-representation"), "a copy taken before the failed call was damaged by it (copy-on-write disjunct shared with the object that was hit); OK()=" + std::to_string((int) ok));
    }
    cow.clear();
    // 4c. "can still be ... used": the objects that were hit are valid objects as they stand (their VALUE is
    //     unspecified after a resource fault, their invariant is not): OK(), a copy, and a few queries on them
    if (outcome == "bad_alloc" || outcome == "abandoned") {
      ctx.note("branch: direct use of the objects that were hit");
      // (in a process of its own: a damaged object - finding F35 - may make these calls read and WRITE out of bounds, and the
      //  recovery checks below must not run on a heap they have scribbled on)
      bool direct_use_clean = in_quarantine(R, op, fk.c_str(), [&]() {
      for (int s : uniq) {
        D& x = *R.pool[(size_t) s];
        bool ok = false;
        try { ok = x.OK(); } catch (const std::exception&) { ok = false; }
        ctx.stat("c14.direct_use_checks");
        if (!ok) { ctx.violation("C14", "damaged-not-ok", klass(op, outcome), "OK() is false for an object involved in a call cut short by " + outcome + " (before any recovery)"); break; }
        try {
          D copy(x);
          (void) copy.is_empty();
          if (!copy.OK()) ctx.violation("C14", "damaged-not-ok", klass(op, outcome + "|copy"), "a copy of an object involved in a call cut short by " + outcome + " fails OK() after is_empty()");
          // self-consistency: the object must equal (in both argument orders) the object rebuilt eagerly from its own
          // description; stale internal flags (sortedness, minimality, cached closures) make these answers disagree
          else if constexpr (Dom<D>::kind == POLY || Dom<D>::kind == SHAPE || Dom<D>::kind == BOX || Dom<D>::kind == GRID) {
            D c1(x); std::unique_ptr<D> tw = canonical(c1, (int) (k % 4));
            D a(x), b(*tw), c(*tw), d2(x);
            bool e1 = (a == b), e2 = (c == d2);
            D p(x), q(*tw); bool c1b = p.contains(q), c2b = q.contains(p);
            ctx.stat("c14.self_consistency_checks");
            if constexpr (Dom<D>::kind == POLY) {     // the descriptions themselves are well-formed systems (sortedness flag, row shapes)
              D s1(x); bool cs_ok = s1.constraints().OK(); D s2(x); bool gs_ok = s2.generators().OK();
              if (!cs_ok || !gs_ok) ctx.violation("C14", "damaged-inconsistent", klass(op, outcome + "|system"), std::string("after a call cut short by ") + outcome + " the " + (!cs_ok ? "constraint" : "generator") + " system of the object fails its own OK()");
            }
            if (!(e1 && e2 && c1b && c2b)) ctx.violation("C14", "damaged-inconsistent", klass(op, outcome), std::string("an object involved in a call cut short by ") + outcome + " disagrees with its own eager rebuild: x==t " + (e1 ? "T" : "F") + ", t==x " + (e2 ? "T" : "F") + ", x.contains(t) " + (c1b ? "T" : "F") + ", t.contains(x) " + (c2b ? "T" : "F"));
          }
        }
        catch (const std::exception& e) { ctx.violation("C14", "damaged-unusable", klass(op, outcome), std::string("copying / querying an object involved in a call cut short throws: ") + e.what()); }
      }
      });
      if (!direct_use_clean || !ctx.viols.empty()) return;
    }
    // 5./6. recovery of every involved object
    for (size_t i = 0; i < uniq.size(); ++i) {
      int s = uniq[i];
      long mode = (op.fk + (long) i + k) % 3;
      ctx.note(mode == 0 ? "branch: destroy+recreate" : mode == 1 ? "branch: assign from good copy" : "branch: swap with good copy");
      if (mode == 0) { R.pool[(size_t) s].reset(); R.pool[(size_t) s].reset(new D(*good[s])); }
      else if (mode == 1) { *R.pool[(size_t) s] = *good[s]; }
      else { D tmp(*good[s]); using std::swap; swap(*R.pool[(size_t) s], tmp); }
      ctx.note("branch: recovered object checks");
      D& x = *R.pool[(size_t) s];
      if (!x.OK()) { if (getenv("VERIF_TRACE")) std::cerr << "TRACE recovered object\n" << dump_of(x) << "\nTRACE good copy (OK=" << good[s]->OK() << ")\n" << dump_of(*good[s]) << "\n";
        ctx.violation("C14", "recovered-not-ok", klass(op, mode == 1 ? "assign" : mode == 2 ? "swap" : "recreate"), "object recovered after " + outcome + " fails OK()"); }
      else if (!same_value(x, *good[s])) ctx.violation("C14", "recovered-differs", klass(op), "object recovered after " + outcome + " differs from the value assigned to it");
    }
    // the same operation, un-faulted, on the recovered objects and on pristine copies
    ctx.note("branch: re-execution on recovered objects");
    {
      std::map<int, std::unique_ptr<D> > ref;
      for (int s : uniq) ref[s].reset(new D(*good[s]));
      Env<D> e1, e2;
      for (int s : slots) { e1.o.push_back(R.pool[(size_t) s].get()); e2.o.push_back(ref[s].get()); }
      Cur c1(op, (size_t) d.nslots, R.W), c2(op, (size_t) d.nslots, R.W);
      std::string a1, a2; bool t1 = false, t2 = false;
      try { a1 = d.prep(e1, c1)(); } catch (const std::exception&) { t1 = true; }
      try { a2 = d.prep(e2, c2)(); } catch (const std::exception&) { t2 = true; }
      if (t1 != t2) ctx.violation("C14", "recovered-behaves-differently", klass(op, "throws"), "re-execution throws on one of recovered/pristine only");
      else if (!t1) {
        if ((d.flags & F_ANS) && a1 != a2) ctx.violation("C14", "recovered-behaves-differently", klass(op, "answer"), "answers " + a1 + " vs " + a2);
        for (int s : uniq) {
          // (an OK() failure that the pristine copy shows too is the operation's own defect, reported by M-ok: not a difference)
          if (!R.pool[(size_t) s]->OK() && ref[s]->OK()) ctx.violation("C14", "recovered-behaves-differently", klass(op, "ok"), "OK() false after re-execution on the recovered object only");
          else if ((d.flags & F_VAL) && !same_value(*R.pool[(size_t) s], *ref[s])) ctx.violation("C14", "recovered-behaves-differently", klass(op, "value"), "results differ");
        }
      }
    }
    // 7. leaks: destroy everything this harness owns, then ask LSan what is unreachable
    ctx.note("branch: teardown");
    good.clear();
    R.pool.clear(); R.shadow.clear();
    long live_after = g_fault.live;
    ctx.log("B:" + outcome + ":" + std::to_string(live_after - live0 > 0));
    bool do_lsan = !enumerate || (k % 8 == 0) || (live_after - live0) > 64;
    if (do_lsan) {
      ctx.note("branch: leak check");
      ctx.stat("c14.leak_checks");
      // the report goes to a scratch file so that the allocation site can be named
      std::string site;
      if (lsan_leaks_site(site))
        ctx.violation("C14", "leak", klass(op, "site=" + site), "memory allocated during a call cut short by " + outcome + " is unreachable after every object was destroyed (first non-allocator frame: " + site + ")");
    }
  }

  // ---------------- main loop
  void run(const Plan& plan, Ctx& ctx) override {
    Run R(plan, ctx);
    if constexpr (Dom<D>::kind == PSET) {
      if (Dom<typename Dom<D>::base_type>::kind == GRID) { g_soft_fd = ctx.out_fd; signal(SIGALRM, soft_timeout_handler); alarm(10); }
    }
    R.dimk = (int) std::min(5L, std::max(0L, plan.knob("dim", 2)));
    R.W = (int) std::min(8L, std::max(1L, plan.knob("W", R.dimk + 2)));
    int pool = (int) std::min(6L, std::max(1L, plan.knob("pool", 2)));
    R.probes.seed = (u64) plan.knob("pseed", 1);
    for (int i = 0; i < pool; ++i) { R.pool.emplace_back(new D((dimension_type) R.dimk, PPL::UNIVERSE)); R.shadow.emplace_back(nullptr); }
    const std::string& prop = R.prop;
    bool twin = prop_uses_twin(prop);
    bool bystand = prop == "C13" || prop == "C09";
    long idx = -1;
    for (const Op& op : plan.ops) {
      ++idx;
      if (!ctx.viols.empty()) break;   // first violation wins: later ones would be consequences
      ctx.begin_op(idx, op);
      ctx.log(op.kind);
      // ---- value-semantic and snapshot operations
      if (op.kind == "construct") {
        int r = (int) op.mod(0, pool);
        Cur c(op, 1, R.W);
        std::unique_ptr<D> x;
        try { x = do_construct(R, c); }
        catch (const std::invalid_argument&) { ctx.stat("construct_rejected"); continue; }
        check_ok(R, op, *x, "constructed");
        R.pool[(size_t) r] = std::move(x); R.shadow[(size_t) r].reset();
        ++ctx.ops_done;
        continue;
      }
      if (op.kind == "copy" || op.kind == "assign" || op.kind == "swap" || op.kind == "self_assign" || op.kind == "self_swap") {
        int r = (int) op.mod(0, pool), a = (int) op.mod(1, pool);
        std::map<int, std::string> others; std::map<int, Fp> ofp;
        if (bystand) for (int s = 0; s < pool; ++s) if (s != r && !(op.kind == "swap" && s == a)) { others[s] = bystander_sig(*R.pool[(size_t) s], R.probes); }
        Fp fa = fingerprint(*R.pool[(size_t) a], R.probes), fr = fingerprint(*R.pool[(size_t) r], R.probes);
        if (op.kind == "copy") { std::unique_ptr<D> n(new D(*R.pool[(size_t) a])); R.pool[(size_t) r] = std::move(n); if (R.shadow[(size_t) a]) R.shadow[(size_t) r].reset(new D(*R.shadow[(size_t) a])); else R.shadow[(size_t) r].reset(); }
        else if (op.kind == "assign") { *R.pool[(size_t) r] = *R.pool[(size_t) a]; if (R.shadow[(size_t) a]) R.shadow[(size_t) r].reset(new D(*R.shadow[(size_t) a])); else R.shadow[(size_t) r].reset(); }
        else if (op.kind == "swap") { using std::swap; swap(*R.pool[(size_t) r], *R.pool[(size_t) a]); std::swap(R.shadow[(size_t) r], R.shadow[(size_t) a]); }
        else if (op.kind == "self_assign") { D& x = *R.pool[(size_t) r]; D* volatile px = &x; x = *px; a = r; fa = fr; }
        else { D& x = *R.pool[(size_t) r]; using std::swap; swap(x, x); a = r; fa = fr; }
        Fp nr = fingerprint(*R.pool[(size_t) r], R.probes), na = fingerprint(*R.pool[(size_t) a], R.probes);
        bool good = op.kind == "swap" ? (nr == fa && na == fr) : (nr == fa && na == fa);
        if (!good) ctx.violation("C13", "value-semantics", klass(op), "copy/assign/swap did not transfer the value");
        check_ok(R, op, *R.pool[(size_t) r], "receiver");
        if (bystand) for (auto& o : others) if (bystander_sig(*R.pool[(size_t) o.first], R.probes) != o.second) ctx.violation("C13", "bystander", klass(op), "an object not involved changed");
        ++ctx.ops_done;
        continue;
      }
      if (op.kind == "dump_load") { do_dump_load(R, op); ++ctx.ops_done; continue; }
      auto it = by_name.find(op.kind);
      if (it == by_name.end()) { ctx.stat("unknown_op"); continue; }
      const DescT& d = *it->second;
      if ((d.flags & F_NNC) && !allow_strict()) continue;
      std::vector<int> slots;
      for (int s = 0; s < d.nslots; ++s) slots.push_back((int) op.mod((size_t) s, pool));
      bool aliased = d.nslots >= 2 && slots[0] == slots[1];
      if (aliased && (d.flags & F_NOSELF)) continue;
      if (d.flags & F_SAMEDIM) {
        bool same = true;
        for (int s : slots) if (R.pool[(size_t) s]->space_dimension() != R.pool[(size_t) slots[0]]->space_dimension()) same = false;
        if (!same) {
          if (prop == "C14") illformed_dim_mismatch(R, op, d, slots);
          else ctx.stat("skipped_dim_mismatch");
          continue;
        }
      }
      if (prop == "C14" && op.mod(9, 3) == 0) {
        std::string dn = d.name;
        if (dn == "add_space_dimensions_and_embed" || dn == "add_space_dimensions_and_project" || dn == "expand_space_dimension") illformed_dim_overflow(R, op, dn, slots[0]);
        if (!ctx.viols.empty()) break;
      }
      std::vector<int> uniq;
      for (int s : slots) if (std::find(uniq.begin(), uniq.end(), s) == uniq.end()) uniq.push_back(s);
      // status coverage
      ctx.state(std::string(d.name) + "|" + status_of_dump(dump_of(*R.pool[(size_t) slots[0]])));
      // ---- fault branches first (they see the exact pre-state)
      if (!op.fault.empty() && prop == "C14" && (d.flags & F_FAULT)) fault_branches(R, op, d, slots, idx);
      // ---- pre-state snapshots
      std::map<int, std::string> others;
      if (bystand) for (int s = 0; s < pool; ++s) if (std::find(uniq.begin(), uniq.end(), s) == uniq.end()) others[s] = bystander_sig(*R.pool[(size_t) s], R.probes);
      std::map<int, Fp> pre;
      for (int s : uniq) pre[s] = fingerprint(*R.pool[(size_t) s], R.probes);
      // twins (canonical re-builds) / alias reference / shadows
      std::map<int, std::unique_ptr<D> > tw;
      bool use_twin = twin && (d.flags & (F_VAL | F_ANS));
      bool use_alias_ref = (prop == "C13") && aliased && (d.flags & (F_VAL | F_ANS));
      bool use_shadow = false;
      if (prop == "C15") for (int s : uniq) if (R.shadow[(size_t) s]) use_shadow = true;
      std::vector<D*> twin_ops;
      std::vector<std::unique_ptr<D> > twin_store;
      try {
        if (use_twin) {
          for (int s : uniq) tw[s] = canonical(*R.pool[(size_t) s], (int) (idx + s));
          for (int s : slots) twin_ops.push_back(tw[s].get());
        }
        else if (use_alias_ref) {
          for (size_t i = 0; i < slots.size(); ++i) { twin_store.emplace_back(new D(*R.pool[(size_t) slots[i]])); twin_ops.push_back(twin_store.back().get()); }
        }
        else if (use_shadow) {
          for (int s : uniq) { if (R.shadow[(size_t) s]) tw[s].reset(new D(*R.shadow[(size_t) s])); else tw[s].reset(new D(*R.pool[(size_t) s])); }
          for (int s : slots) twin_ops.push_back(tw[s].get());
        }
      }
      catch (const std::exception& e) {
        ctx.violation(prop, "twin-build", klass(op), std::string("re-building a value from its own minimized description threw: ") + e.what());
        twin_ops.clear();
      }
      // ---- the operation itself
      g_def.ctx = &ctx; g_def.probes = &R.probes; g_def.op = &op; g_def.dom = Dom<D>::name(); g_def.prop = prop; g_def.active = (prop == "C01" || prop == "C04" || prop == "C05" || prop == "C09" || prop == "C10");
      Env<D> env; for (int s : slots) env.o.push_back(R.pool[(size_t) s].get());
      Cur cur(op, (size_t) d.nslots, R.W);
      std::string ans; bool threw = false; std::string what;
      try { ans = d.prep(env, cur)(); }
      catch (const std::invalid_argument& e) { threw = true; what = e.what(); ctx.stat("rejected_invalid_argument"); }
      catch (const std::length_error& e) { threw = true; what = e.what(); ctx.stat("rejected_length_error"); }
      catch (const std::exception& e) {
        ctx.violation(prop, "unexpected-exception", klass(op, typeid(e).name()), e.what());
        continue;
      }
      if (threw) {
        // a rejected call must leave every involved object's value unchanged
        for (int s : uniq) {
          if (!R.pool[(size_t) s]->OK()) ctx.violation("C14", "rejected-not-ok", klass(op), "OK() false after a rejected call: " + what);
          else if (fingerprint(*R.pool[(size_t) s], R.probes) != pre[s]) ctx.violation("C14", "rejected-changed", klass(op), "value changed by a call rejected with: " + what);
        }
        // keep the C15 replicas in lock-step: they see the same (rejected) call
        if (use_shadow && !twin_ops.empty()) {
          Env<D> tenv; tenv.o = twin_ops; Cur tcur(op, (size_t) d.nslots, R.W);
          try { d.prep(tenv, tcur)(); } catch (const std::exception&) {}
          for (int s : uniq) R.shadow[(size_t) s] = std::move(tw[s]);
        }
        ctx.log("rejected");
        continue;
      }
      ++ctx.ops_done;
      ctx.log(ans);
      if (getenv("VERIF_TRACE")) std::cerr << "TRACE " << Plan::op_text(op) << " => " << ans << "\n" << dump_of(*R.pool[(size_t) slots[0]]) << "\n";   // ascii_dump is passive
      // ---- workload guard: some operations legitimately produce descriptions that are huge for their dimension
      // (positive_time_elapse_assign: 3804 unminimized generators in dimension 6); every monitor below would then spend
      // minutes in conversions.  The run ends here, counted; it is neither a violation nor a hang.
      { bool huge = false; for (int s : uniq) if (R.pool[(size_t) s]->external_memory_in_bytes() > 120000) huge = true;
        if (huge) { ctx.stat("kit.workload_too_large"); break; } }
      // ---- M-ok
      for (int s : uniq) check_ok(R, op, *R.pool[(size_t) s], s == slots[0] ? (pre[s].dim == 0 ? "receiver|zero-dim" : "receiver") : "argument");
      // ---- M-const
      for (size_t i = 0; i < slots.size(); ++i) {
        bool is_const = (i == 0) ? (d.flags & F_OBS) : !(d.flags & F_CONSUMES);
        if (!is_const || (i > 0 && slots[i] == slots[0] && !(d.flags & F_OBS))) continue;
        if (!R.pool[(size_t) slots[i]]->OK()) continue;
        if (fingerprint(*R.pool[(size_t) slots[i]], R.probes) != pre[slots[i]])
          ctx.violation(prop == "C13" ? "C13" : prop, "const-changed", klass(op, i == 0 ? "receiver" : "argument"), "a const operand denotes a different set after the call");
      }
      Fp post = fingerprint(*R.pool[(size_t) slots[0]], R.probes);
      ctx.log(post.hash());
      // ---- twin / alias / shadow comparison
      if (!twin_ops.empty()) {
        Env<D> tenv; tenv.o = twin_ops;
        Cur tcur(op, (size_t) d.nslots, R.W);
        std::string tans; bool tthrew = false;
        bool trejected = false;
        try { tans = d.prep(tenv, tcur)(); }
        catch (const std::invalid_argument& e) { trejected = true; tans = e.what(); }
        catch (const std::exception& e) { tthrew = true; tans = e.what(); }
        if (trejected) {
          // The call was accepted on the object but rejected on an equal value in another state: some
          // preconditions are only tested on non-empty receivers (e.g. Grid::add_constraint with an
          // inequality).  Counted, not judged: the statement of this property does not cover it.
          ctx.stat("precondition_checked_only_in_some_states");
          if (use_shadow) for (int s : uniq) R.shadow[(size_t) s] = std::move(tw[s]);
          harvest(R, *R.pool[(size_t) slots[0]]);
          continue;
        }
        if (getenv("VERIF_TRACE") && use_shadow) std::cerr << "TRACE shadow receiver after " << op.kind << "\n" << dump_of(*twin_ops[0]) << "\n";
        const char* mon = use_twin ? "twin" : use_alias_ref ? "alias" : "shadow";
        const std::string tprop = use_twin ? prop : use_alias_ref ? "C13" : "C15";
        ++R.twin_cmp; ctx.stat(std::string("cmp.") + mon);
        if (tthrew) ctx.violation(tprop, std::string(mon) + "-throws", klass(op), "the operation threw on the reference operands only: " + tans);
        else {
          if ((d.flags & F_ANS) && tans != ans && !(use_shadow && (d.flags & F_SYNT)))
            ctx.violation(tprop, std::string(mon) + "-answer", klass(op), "answer " + ans + " but " + tans + " on an equal value built differently");
          if (d.flags & F_VAL) {
            D& mine = *R.pool[(size_t) slots[0]]; D& ref = *twin_ops[0];
            if (!ref.OK() && !only_inexact_closure(ref)) ctx.violation(tprop, std::string(mon) + "-ok", klass(op), "reference result fails OK()");
            else if (fingerprint(ref, R.probes) != post || !same_value(mine, ref)) {
              ctx.violation(tprop, std::string(mon) + "-value", klass(op), "result differs from the result on an equal value built differently");
              if (getenv("VERIF_TRACE")) std::cerr << "TRACE mismatch: receiver\n" << dump_of(mine) << "\nTRACE mismatch: reference\n" << dump_of(ref) << "\n";
            }
          }
        }
        if (use_shadow) for (int s : uniq) R.shadow[(size_t) s] = std::move(tw[s]);
      }
      // ---- M-bystander
      if (bystand) for (auto& o : others) if (bystander_sig(*R.pool[(size_t) o.first], R.probes) != o.second) ctx.violation("C13", "bystander", klass(op), "an object not involved in the call changed its representation");
      // harvest probe points from the receiver
      harvest(R, *R.pool[(size_t) slots[0]]);
    }
    ctx.nontrivial = ctx.ops_done >= 5 && (prop != "C14" || ctx.faults_fired >= 0);
    ctx.stat("ops", ctx.ops_done);
  }

  void harvest(Run& R, const D& x) {
    if constexpr (Dom<D>::kind == PSET) {
      typedef typename Dom<D>::base_type B;
      if constexpr (Dom<B>::kind == POLY) {
        D c(x); const D& cc = c; int nd = 0;
        for (typename D::const_iterator i = cc.begin(), e = cc.end(); i != e && nd < 2; ++i, ++nd) {
          B d(i->pointset()); if (d.is_empty()) continue;
          const Generator_System& gs = d.generators(); int n = 0;
          for (Generator_System::const_iterator g = gs.begin(); g != gs.end() && n < 3; ++g, ++n)
            if (g->is_point() || g->is_closure_point()) R.probes.add(d.space_dimension(), oracle::vec_of(*g, d.space_dimension(), true));
        }
      }
    }
    else if constexpr (Dom<D>::kind == POLY) {
      D c(x);
      if (c.is_empty()) return;
      dimension_type dim = c.space_dimension();
      const Generator_System& gs = c.generators();
      int n = 0;
      for (Generator_System::const_iterator i = gs.begin(); i != gs.end() && n < 4; ++i, ++n)
        if (i->is_point() || i->is_closure_point()) R.probes.add(dim, oracle::vec_of(*i, dim, true));
    }
    else if constexpr (Dom<D>::kind == GRID) {
      D c(x);
      if (c.is_empty()) return;
      dimension_type dim = c.space_dimension();
      const Grid_Generator_System& gs = c.grid_generators();
      int n = 0;
      for (Grid_Generator_System::const_iterator i = gs.begin(); i != gs.end() && n < 3; ++i, ++n)
        if (i->is_point()) R.probes.add(dim, oracle::vec_of(*i, dim, true));
    }
  }

  // space-dimension overflow: std::length_error, receiver unchanged (never a wrapped-around dimension, never a crash)
  void illformed_dim_overflow(Run& R, const Op& op, const std::string& dn, int slot) {
    Ctx& ctx = R.ctx;
    D& x = *R.pool[(size_t) slot];
    dimension_type dim = x.space_dimension();
    if (dn == "expand_space_dimension" && dim == 0) return;
    Fp pre = fingerprint(x, R.probes);
    dimension_type m = op.mod(10, 2) ? ~(dimension_type) 0 - (dimension_type) op.mod(11, 3) : D::max_space_dimension() - dim + 1 + (dimension_type) op.mod(11, 3);
    ctx.note("illformed: space dimension overflow");
    ctx.stat("c14.illformed.dim_overflow");
    ++ctx.faults_fired;
    try {
      if (dn == "add_space_dimensions_and_embed") x.add_space_dimensions_and_embed(m);
      else if (dn == "add_space_dimensions_and_project") x.add_space_dimensions_and_project(m);
      else x.expand_space_dimension(Variable(0), m);
      ctx.violation("C14", "illformed-accepted", klass(op, "dim-overflow"), "a number of new dimensions beyond max_space_dimension() was accepted (space dimension now " + std::to_string(x.space_dimension()) + ")");
      return;
    }
    catch (const std::length_error&) {}
    catch (const std::exception& e) { ctx.violation("C14", "illformed-wrong-exception", klass(op, "dim-overflow"), e.what()); return; }
    ctx.note("");
    if (!x.OK()) ctx.violation("C14", "rejected-not-ok", klass(op, "dim-overflow"), "OK() false after a rejected call");
    else if (fingerprint(x, R.probes) != pre) ctx.violation("C14", "rejected-changed", klass(op, "dim-overflow"), "value changed by a rejected call");
  }

  void illformed_dim_mismatch(Run& R, const Op& op, const DescT& d, const std::vector<int>& slots) {
    Ctx& ctx = R.ctx;
    std::map<int, Fp> pre;
    for (int s : slots) pre[s] = fingerprint(*R.pool[(size_t) s], R.probes);
    Env<D> env; for (int s : slots) env.o.push_back(R.pool[(size_t) s].get());
    Cur cur(op, (size_t) d.nslots, R.W);
    ctx.stat("c14.illformed.dim_mismatch");
    ++ctx.faults_fired;
    try { d.prep(env, cur)(); ctx.violation("C14", "illformed-accepted", klass(op, "dim-mismatch"), "operands of different space dimension were accepted"); return; }
    catch (const std::invalid_argument&) {}
    catch (const std::exception& e) { ctx.violation("C14", "illformed-wrong-exception", klass(op, "dim-mismatch"), e.what()); return; }
    for (int s : slots) {
      if (!R.pool[(size_t) s]->OK()) ctx.violation("C14", "rejected-not-ok", klass(op, "dim-mismatch"), "OK() false after a rejected call");
      else if (fingerprint(*R.pool[(size_t) s], R.probes) != pre[s]) ctx.violation("C14", "rejected-changed", klass(op, "dim-mismatch"), "value changed by a rejected call");
    }
  }
};

}  // namespace obj
#endif
