// Dense rational simplex with Bland's rule (mpq_class).  Small problems only
// (<= ~10 variables, <= ~20 rows).  Deliberately not PPL's MIP_Problem.
// Every answer is self-checked: the returned point is substituted back into
// every row; an inconsistency is an *oracle* error (reported as such).
#ifndef ORACLE_EXACT_LP_HH
#define ORACLE_EXACT_LP_HH
#include <gmpxx.h>
#include <vector>
#include <stdexcept>

namespace oracle {

enum LPStatus { LP_INFEASIBLE = 0, LP_UNBOUNDED = 1, LP_OPTIMAL = 2 };

struct LPRow { std::vector<mpq_class> a; int rel; mpq_class b; };   // a.x  rel  b ; rel: -1 <=, 0 ==, +1 >=

struct LPResult {
  LPStatus status = LP_INFEASIBLE;
  mpq_class value;
  std::vector<mpq_class> x;
};

struct OracleError : std::runtime_error { explicit OracleError(const std::string& s) : std::runtime_error(s) {} };

// maximise c.x subject to rows; all variables free.
inline LPResult lp_solve(size_t nvars, const std::vector<LPRow>& rows, const std::vector<mpq_class>& c, bool maximize = true) {
  typedef mpq_class Q;
  const size_t m = rows.size();
  // columns: x+ (n), x- (n), slack/surplus (m), artificial (m), rhs
  const size_t n = nvars, nc = 2 * n + 2 * m;
  std::vector<std::vector<Q> > T(m, std::vector<Q>(nc + 1));
  std::vector<size_t> basis(m);
  std::vector<bool> has_art(m, false);
  for (size_t i = 0; i < m; ++i) {
    Q b = rows[i].b; int rel = rows[i].rel; int sg = 1;
    if (b < 0) { sg = -1; b = -b; rel = -rel; }
    for (size_t j = 0; j < n; ++j) { Q a = (j < rows[i].a.size() ? rows[i].a[j] : Q(0)) * sg; T[i][j] = a; T[i][n + j] = -a; }
    T[i][nc] = b;
    if (rel < 0) { T[i][2 * n + i] = 1; basis[i] = 2 * n + i; }
    else {
      if (rel > 0) T[i][2 * n + i] = -1;
      T[i][2 * n + m + i] = 1; basis[i] = 2 * n + m + i; has_art[i] = true;
    }
  }
  auto pivot = [&](size_t r, size_t col) {
    Q p = T[r][col];
    for (size_t j = 0; j <= nc; ++j) T[r][j] /= p;
    for (size_t i = 0; i < m; ++i) if (i != r && T[i][col] != 0) { Q f = T[i][col]; for (size_t j = 0; j <= nc; ++j) T[i][j] -= f * T[r][j]; }
    basis[r] = col;
  };
  // generic simplex on a cost vector (minimise cost.x), columns allowed < limit
  auto run = [&](const std::vector<Q>& cost, size_t limit, bool& unbounded) {
    unbounded = false;
    for (int iter = 0; iter < 100000; ++iter) {
      // reduced costs: cost_j - sum_i cost_basis(i) * T[i][j]
      size_t enter = limit;
      for (size_t j = 0; j < limit; ++j) {
        Q rc = cost[j];
        for (size_t i = 0; i < m; ++i) if (cost[basis[i]] != 0) rc -= cost[basis[i]] * T[i][j];
        if (rc < 0) { enter = j; break; }        // Bland: lowest index
      }
      if (enter == limit) return;
      size_t leave = m; Q best;
      for (size_t i = 0; i < m; ++i) if (T[i][enter] > 0) {
        Q ratio = T[i][nc] / T[i][enter];
        if (leave == m || ratio < best || (ratio == best && basis[i] < basis[leave])) { leave = i; best = ratio; }
      }
      if (leave == m) { unbounded = true; return; }
      pivot(leave, enter);
    }
    throw OracleError("exact_lp: iteration limit");
  };
  LPResult res;
  bool unb = false;
  // phase 1
  {
    std::vector<Q> cost(nc, Q(0));
    for (size_t i = 0; i < m; ++i) cost[2 * n + m + i] = 1;
    run(cost, nc, unb);
    Q inf = 0;
    for (size_t i = 0; i < m; ++i) if (basis[i] >= 2 * n + m) inf += T[i][nc];
    if (inf != 0) { res.status = LP_INFEASIBLE; return res; }
    // drive remaining (degenerate) artificials out of the basis
    for (size_t i = 0; i < m; ++i) if (basis[i] >= 2 * n + m) {
      size_t col = 2 * n + m;
      for (size_t j = 0; j < 2 * n + m; ++j) if (T[i][j] != 0) { col = j; break; }
      if (col < 2 * n + m) pivot(i, col);
      // else: redundant row, harmless (rhs is 0 and the artificial stays at 0; it is never allowed to enter again)
    }
  }
  // phase 2: minimise -c.x (or c.x)
  {
    std::vector<Q> cost(nc, Q(0));
    for (size_t j = 0; j < n; ++j) { Q cj = j < c.size() ? c[j] : Q(0); if (maximize) cj = -cj; cost[j] = cj; cost[n + j] = -cj; }
    run(cost, 2 * n + m, unb);
    std::vector<Q> xx(nc, Q(0));
    for (size_t i = 0; i < m; ++i) xx[basis[i]] = T[i][nc];
    res.x.assign(n, Q(0));
    for (size_t j = 0; j < n; ++j) res.x[j] = xx[j] - xx[n + j];
    // self-check feasibility of the point
    for (size_t i = 0; i < m; ++i) {
      Q v = 0; for (size_t j = 0; j < n && j < rows[i].a.size(); ++j) v += rows[i].a[j] * res.x[j];
      bool ok = rows[i].rel < 0 ? v <= rows[i].b : rows[i].rel > 0 ? v >= rows[i].b : v == rows[i].b;
      if (!ok) throw OracleError("exact_lp: returned point violates a row");
    }
    if (unb) { res.status = LP_UNBOUNDED; return res; }
    res.status = LP_OPTIMAL;
    res.value = 0;
    for (size_t j = 0; j < n && j < c.size(); ++j) res.value += c[j] * res.x[j];
    return res;
  }
}

}  // namespace oracle
#endif
