// Exact evaluation of constraints, congruences and generators at rational
// points, reading coefficients through the public accessors only.  Part of
// the trusted base (independent of conversion, minimisation, closure code).
#ifndef ORACLE_POINT_EVAL_HH
#define ORACLE_POINT_EVAL_HH
#include <gmpxx.h>
#include <vector>
#include <string>

namespace oracle {
namespace PPL = Parma_Polyhedra_Library;
typedef std::vector<mpq_class> QPoint;

template <class Row>
inline mpq_class eval_row(const Row& r, const QPoint& p) {
  mpq_class v(r.inhomogeneous_term());
  PPL::dimension_type n = r.space_dimension();
  for (PPL::dimension_type i = 0; i < n; ++i) {
    const PPL::Coefficient& c = r.coefficient(PPL::Variable(i));
    if (c != 0 && i < p.size()) v += mpq_class(c) * p[i];
  }
  return v;
}

inline bool sat(const PPL::Constraint& c, const QPoint& p) {
  mpq_class v = eval_row(c, p);
  if (c.is_equality()) return v == 0;
  if (c.is_strict_inequality()) return v > 0;
  return v >= 0;
}

inline bool sat(const PPL::Congruence& cg, const QPoint& p) {
  mpq_class v = eval_row(cg, p);
  if (cg.is_equality()) return v == 0;
  mpq_class q = v / mpq_class(cg.modulus());
  q.canonicalize();
  return q.get_den() == 1;
}

inline bool sat_all(const PPL::Constraint_System& cs, const QPoint& p) {
  for (PPL::Constraint_System::const_iterator i = cs.begin(), e = cs.end(); i != e; ++i)
    if (!sat(*i, p)) return false;
  return true;
}

inline bool sat_all(const PPL::Congruence_System& cgs, const QPoint& p) {
  for (PPL::Congruence_System::const_iterator i = cgs.begin(), e = cgs.end(); i != e; ++i)
    if (!sat(*i, p)) return false;
  return true;
}

// direction (ray, line, parameter) as a rational vector; for points the point itself
template <class Gen>
inline QPoint vec_of(const Gen& g, size_t dim, bool divide) {
  QPoint p(dim);
  for (size_t i = 0; i < dim && i < g.space_dimension(); ++i) {
    p[i] = mpq_class(g.coefficient(PPL::Variable(i)));
    if (divide) { p[i] /= mpq_class(g.divisor()); p[i].canonicalize(); }
  }
  return p;
}

// homogeneous part of a constraint / congruence applied to a direction
template <class Row>
inline mpq_class eval_dir(const Row& r, const QPoint& d) {
  mpq_class v(0);
  for (PPL::dimension_type i = 0; i < r.space_dimension(); ++i) {
    const PPL::Coefficient& c = r.coefficient(PPL::Variable(i));
    if (c != 0 && i < d.size()) v += mpq_class(c) * d[i];
  }
  return v;
}

// Does generator g respect constraint c?  (points satisfy it, closure points
// satisfy its non-strict version, rays do not leave it, lines stay on it)
inline bool gen_respects(const PPL::Generator& g, const PPL::Constraint& c, size_t dim) {
  if (g.is_point() || g.is_closure_point()) {
    QPoint p = vec_of(g, dim, true);
    mpq_class v = eval_row(c, p);
    if (c.is_equality()) return v == 0;
    if (c.is_strict_inequality() && g.is_point()) return v > 0;
    return v >= 0;
  }
  QPoint d = vec_of(g, dim, false);
  mpq_class v = eval_dir(c, d);
  if (g.is_line() || c.is_equality()) return v == 0;
  return v >= 0;
}

inline bool ggen_respects(const PPL::Grid_Generator& g, const PPL::Congruence& cg, size_t dim) {
  if (g.is_point()) return sat(cg, vec_of(g, dim, true));
  if (g.is_parameter()) {
    mpq_class v = eval_dir(cg, vec_of(g, dim, true));
    if (cg.is_equality()) return v == 0;
    mpq_class q = v / mpq_class(cg.modulus());
    q.canonicalize();
    return q.get_den() == 1;
  }
  return eval_dir(cg, vec_of(g, dim, false)) == 0;
}

inline std::string show(const QPoint& p) {
  std::string s = "(";
  for (size_t i = 0; i < p.size(); ++i) s += (i ? "," : "") + p[i].get_str();
  return s + ")";
}
}  // namespace oracle
#endif
