// Seeded PRNG: SplitMix64 -> xoshiro256**.  One integer decides everything.
#ifndef KIT_RNG_HH
#define KIT_RNG_HH
#include <cstdint>
#include <string>
typedef uint64_t u64;

inline u64 splitmix64(u64& x) {
  u64 z = (x += 0x9e3779b97f4a7c15ULL);
  z = (z ^ (z >> 30)) * 0xbf58476d1ce4e5b9ULL;
  z = (z ^ (z >> 27)) * 0x94d049bb133111ebULL;
  return z ^ (z >> 31);
}
inline u64 mix64(u64 a, u64 b) {
  u64 x = a ^ (b * 0x9e3779b97f4a7c15ULL + 0x7f4a7c15ULL);
  splitmix64(x);
  return splitmix64(x);
}
inline u64 hash_str(const std::string& s, u64 h = 1469598103934665603ULL) {
  for (unsigned char c : s) { h ^= c; h *= 1099511628211ULL; }
  return h;
}
struct Rng {
  u64 s[4];
  explicit Rng(u64 seed = 1) { reseed(seed); }
  void reseed(u64 seed) { u64 x = seed; for (int i = 0; i < 4; ++i) s[i] = splitmix64(x); }
  static u64 rotl(u64 x, int k) { return (x << k) | (x >> (64 - k)); }
  u64 next() {
    const u64 r = rotl(s[1] * 5, 7) * 9, t = s[1] << 17;
    s[2] ^= s[0]; s[3] ^= s[1]; s[1] ^= s[2]; s[0] ^= s[3]; s[2] ^= t; s[3] = rotl(s[3], 45);
    return r;
  }
  u64 below(u64 n) { return n == 0 ? 0 : next() % n; }
  long range(long lo, long hi) { return lo + (long) below((u64) (hi - lo + 1)); }
  bool chance(int pct) { return (int) below(100) < pct; }
  template <class C> const typename C::value_type& pick(const C& c) { return c[below(c.size())]; }
};
#endif
