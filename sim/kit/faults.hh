// Fault layer: counting/failing allocator shim under operator new and GMP,
// abandonment at a chosen maybe_abandon() checkpoint, abandon flag raised at
// a chosen allocation instant, live-block accounting, LSan reachability gate.
// Include in exactly one translation unit of a harness executable.
#ifndef KIT_FAULTS_HH
#define KIT_FAULTS_HH
#include <cstdlib>
#include <cstring>
#include <new>
#include <gmp.h>
extern "C" int __lsan_do_recoverable_leak_check() __attribute__((weak));

struct FaultState {
  bool armed;            // count (and possibly fail) allocation events
  long count;            // allocation events since arm()
  long fail_at;          // -1: never
  bool sticky;           // keep failing after the first failure
  long failed;           // number of failed allocations
  long flag_at;          // raise the abandon flag at this allocation instant (-1: never)
  bool flag_raised;
  long live;             // live blocks (allocated - freed) since process start
  // maybe_abandon() checkpoints
  long ab_count;
  long ab_at;            // -1: never
  bool ab_fired;
};
static FaultState g_fault = { false, 0, -1, false, 0, -1, false, 0, 0, -1, false };

// Requires the PPL headers (kit/ppl_all.hh) to be included first.
struct Sim_Abandon {};   // private exception type of the simulator
struct SimThrowable : Parma_Polyhedra_Library::Throwable {
  void throw_me() const override { throw Sim_Abandon(); }
  int priority() const { return 0; }
};
static SimThrowable g_sim_throwable;
static inline void fault_raise_flag() { Parma_Polyhedra_Library::abandon_expensive_computations = &g_sim_throwable; }
static inline void fault_lower_flag() { Parma_Polyhedra_Library::abandon_expensive_computations = nullptr; }

static inline bool fault_on_alloc() {
  if (!g_fault.armed) return false;
  long k = g_fault.count++;
  if (k == g_fault.flag_at && !g_fault.flag_raised) { g_fault.flag_raised = true; fault_raise_flag(); }
  if (k == g_fault.fail_at || (g_fault.sticky && g_fault.failed > 0 && g_fault.fail_at >= 0 && k > g_fault.fail_at)) {
    ++g_fault.failed;
    return true;
  }
  return false;
}

void* operator new(std::size_t n) {
  if (fault_on_alloc()) throw std::bad_alloc();
  void* p = std::malloc(n ? n : 1);
  if (!p) throw std::bad_alloc();
  ++g_fault.live;
  return p;
}
void* operator new[](std::size_t n) { return operator new(n); }
void* operator new(std::size_t n, const std::nothrow_t&) noexcept {
  if (fault_on_alloc()) return nullptr;
  void* p = std::malloc(n ? n : 1);
  if (p) ++g_fault.live;
  return p;
}
void* operator new[](std::size_t n, const std::nothrow_t& t) noexcept { return operator new(n, t); }
void operator delete(void* p) noexcept { if (p) { --g_fault.live; std::free(p); } }
void operator delete[](void* p) noexcept { operator delete(p); }
void operator delete(void* p, std::size_t) noexcept { operator delete(p); }
void operator delete[](void* p, std::size_t) noexcept { operator delete(p); }

static void sim_alloc_bt(void* p);    // debug aid, defined below
static void* sim_gmp_alloc(size_t n) {
  if (fault_on_alloc()) throw std::bad_alloc();
  void* p = std::malloc(n ? n : 1);
  if (!p) throw std::bad_alloc();
  ++g_fault.live;
  sim_alloc_bt(p);
  return p;
}
static void* sim_gmp_realloc(void* q, size_t, size_t n) {
  if (fault_on_alloc()) throw std::bad_alloc();
  void* p = std::realloc(q, n ? n : 1);
  if (!p) throw std::bad_alloc();
  if (!q) ++g_fault.live;
  if (p != q) { static int on = -1; if (on < 0) on = getenv("VERIF_ALLOC_BT") ? 1 : 0; if (on) { if (q) dprintf(2, "GMPFREE %p\n", q); sim_alloc_bt(p); } }
  return p;
}
static void sim_gmp_free(void* p, size_t) { if (p) { --g_fault.live; static int on = -1; if (on < 0) on = getenv("VERIF_ALLOC_BT") ? 1 : 0; if (on) dprintf(2, "GMPFREE %p\n", p); std::free(p); } }

// The library's own default is empty and exists to be replaced (Init calls it).
extern "C" void ppl_set_GMP_memory_allocation_functions() {
  mp_set_memory_functions(sim_gmp_alloc, sim_gmp_realloc, sim_gmp_free);
}

static inline void fault_disarm() {
  g_fault.armed = false; g_fault.fail_at = -1; g_fault.flag_at = -1; g_fault.ab_at = -1; g_fault.sticky = false;
}
static inline void fault_arm_count() {
  g_fault = FaultState{ true, 0, -1, false, 0, -1, false, g_fault.live, 0, -1, false };
}
static inline void fault_arm_alloc(long k, bool sticky) { fault_arm_count(); g_fault.fail_at = k; g_fault.sticky = sticky; }
static inline void fault_arm_flag(long a) { fault_arm_count(); g_fault.flag_at = a; }
static inline void fault_arm_abandon(long k) { fault_arm_count(); g_fault.ab_at = k; }

// maybe_abandon() checkpoint seam (hook H3)
static void fault_abandon_hook() {
  if (!g_fault.armed) return;
  long k = g_fault.ab_count++;
  if (k == g_fault.ab_at) { g_fault.ab_fired = true; fault_raise_flag(); }
}
static inline void fault_install_hooks() { Parma_Polyhedra_Library::verif_abandon_hook = fault_abandon_hook; }

static inline bool lsan_available() { return &__lsan_do_recoverable_leak_check != nullptr; }
// Harness-side post-processing inside an armed region must not consume fault positions.
struct FaultPause {
  bool was;
  FaultPause() : was(g_fault.armed) { g_fault.armed = false; }
  ~FaultPause() { g_fault.armed = was; }
};

// Debug aid (VERIF_THROW_BT=1): print the call stack of every C++ throw to stderr.  Interposes __cxa_throw of
// libstdc++; inert unless the variable is set; uses malloc directly, so it never consumes fault positions.
#include <dlfcn.h>
#include <execinfo.h>
extern "C" void __cxa_throw(void* ex, void* tinfo, void (*dest)(void*)) {
  typedef void (*real_t)(void*, void*, void (*)(void*));
  static real_t real = (real_t) dlsym(RTLD_NEXT, "__cxa_throw");
  static int on = -1;
  if (on < 0) on = getenv("VERIF_THROW_BT") ? 1 : 0;
  if (on) { bool was = g_fault.armed; g_fault.armed = false; void* bt[24]; int n = backtrace(bt, 24); dprintf(2, "THROW\n"); backtrace_symbols_fd(bt, n, 2); g_fault.armed = was; }
  real(ex, tinfo, dest);
  __builtin_unreachable();
}

// Debug aid (VERIF_ALLOC_BT=1): print the call stack of every first GMP allocation (with LSAN_OPTIONS=report_objects=1 the
// leaked address can then be matched to the code that obtained it even though libgmp has no frame pointers).
static void sim_alloc_bt(void* p) {
  static int on = -1;
  if (on < 0) on = getenv("VERIF_ALLOC_BT") ? 1 : 0;
  if (!on) return;
  bool was = g_fault.armed; g_fault.armed = false;
  void* bt[16]; int n = backtrace(bt, 16); dprintf(2, "GMPALLOC %p\n", p); backtrace_symbols_fd(bt, n, 2);
  g_fault.armed = was;
}

static inline int lsan_leaks() { return lsan_available() ? __lsan_do_recoverable_leak_check() : 0; }
// Leak check whose report is parsed for the allocation site: the first stack frame that is not an allocator
// (operator new, malloc, the GMP shim, std:: containers).  Returns the number reported by LSan (0: no leak).
#include <fcntl.h>
#include <unistd.h>
#include <string>
#include <cstring>
static inline int lsan_leaks_site(std::string& site) {
  site = "unknown";
  if (!lsan_available()) return 0;
  char path[128]; snprintf(path, sizeof path, "/tmp/verif-lsan-%d.txt", (int) getpid());
  int fd = open(path, O_WRONLY | O_CREAT | O_TRUNC, 0600);
  int saved = dup(2);
  if (fd >= 0) { dup2(fd, 2); close(fd); }
  int leaks = lsan_leaks();
  if (saved >= 0) { dup2(saved, 2); close(saved); }
  if (leaks) {
    FILE* f = fopen(path, "r");
    if (f) {
      char line[1024]; bool in_block = false;
      while (fgets(line, sizeof line, f)) {
        if (strstr(line, "leak of")) { in_block = true; continue; }
        if (!in_block) continue;
        const char* hash = strchr(line, '#');
        if (!hash || hash - line > 8) continue;       // only stack-frame lines
        const char* in = strstr(line, " in ");
        if (!in) continue;
        std::string fn(in + 4);
        while (!fn.empty() && (fn.back() == '\n' || fn.back() == ' ')) fn.pop_back();
        // drop the trailing " file:line" or " (module+0x..)"
        size_t sp = fn.rfind(' ');
        if (sp != std::string::npos && (fn.find('/', sp) != std::string::npos || fn.find(':', sp) != std::string::npos || fn[sp + 1] == '(')) fn.resize(sp);
        // drop the argument list, keep the qualified name
        size_t par = fn.find('(');
        if (par != std::string::npos && par > 0) fn.resize(par);
        if (fn.find("operator new") != std::string::npos || fn.find("malloc") != std::string::npos || fn.find("sim_gmp") != std::string::npos
            || fn.find("interceptor") != std::string::npos || (fn.find("realloc") != std::string::npos && fn.compare(0, 5, "__gmp") != 0) || fn.find("allocator") != std::string::npos
            || fn.find("__gnu_cxx") != std::string::npos || fn.find("std::") == 0) continue;
        if (strstr(line, "libgmpxx.so") && fn.compare(0, 5, "__gmp") != 0) fn = "gmpxx:" + fn;     // e.g. libgmpxx's operator<<, not the library's own
        for (char& ch : fn) if (ch == ' ' || ch == '|') ch = '_';
        if (fn.size() > 80) fn.resize(80);
        site = fn; break;
      }
      fclose(f);
    }
  }
  if (!getenv("VERIF_KEEP_LSAN")) unlink(path);
  return leaks;
}
#endif
