// Umbrella include: the individual headers of /repo/src, in the order of
// ppl_include_files.hh.  Never the amalgamated ppl.hh (it does not follow edits).
#ifndef KIT_PPL_ALL_HH
#define KIT_PPL_ALL_HH
#include "ppl-config.h"
#include "version.hh"
#include "ppl_include_files.hh"
#endif
