// Simulated ITIMER_PROF / SIGPROF: the library's setitimer, getitimer and
// sigaction calls bind to the definitions below (they live in the harness
// executable, which comes first in symbol lookup).  Time advances only at
// yield points; the recorded handler is called synchronously there, which is
// the model of a signal preempting the main code between two statements.
#ifndef KIT_SIMCLOCK_HH
#define KIT_SIMCLOCK_HH
#include <csignal>
#include <cstring>
#include <sys/time.h>
#include <sys/syscall.h>
#include <unistd.h>
#include <functional>

// POD, zero-initialised before any constructor runs: PPL's Init may call
// sigaction() during static initialisation.
static void (*g_sigprof_handler)(int);

struct SimClock {
  bool active = false;      // intercept only while a run is in progress
  long now = 0;             // microseconds of simulated CPU time
  bool armed = false;
  long deadline = 0;        // expiry instant
  long late = 0;            // jitter: delivery this much after expiry
  bool in_handler = false;
  long deliveries = 0, setitimers = 0, getitimers = 0;
  long total_lag = 0;       // sum over deliveries of (delivery - expiry), plus re-arm gaps
  long last_get = -1;       // instant of the last getitimer by main code not yet followed by a setitimer
  long jitter_max = 0;      // 0 = exact clock mode
  long tick = 1;            // getitimer granularity (jitter mode)
  std::function<long()> draw_late;              // jitter source (plan-seeded)
  std::function<void(long expiry, long at)> on_deliver_begin, on_deliver_end;

  bool due() const { return armed && now >= deadline + late; }
  void deliver_if_due() {
    while (due() && !in_handler && g_sigprof_handler != nullptr) {
      armed = false;
      ++deliveries;
      total_lag += now - deadline;
      long exp = deadline, at = now;
      if (on_deliver_begin) on_deliver_begin(exp, at);
      in_handler = true;
      g_sigprof_handler(SIGPROF);
      in_handler = false;
      if (on_deliver_end) on_deliver_end(exp, at);
    }
  }
  // Client computes for `us` microseconds outside the library: expiries are
  // delivered exactly when they occur.
  void idle(long us) {
    long end = now + us;
    while (armed && !in_handler && g_sigprof_handler != nullptr && deadline + late <= end) {
      if (deadline + late > now) now = deadline + late;
      deliver_if_due();
    }
    if (end > now) now = end;
  }
  void advance(long us) { now += us; deliver_if_due(); }
};

static SimClock g_clock;

extern "C" int setitimer(__itimer_which_t which, const struct itimerval* nv, struct itimerval* ov) {
  if (!g_clock.active || which != ITIMER_PROF)
    return (int) syscall(SYS_setitimer, (int) which, nv, ov);
  ++g_clock.setitimers;
  // Time between reading the timer and re-arming it is lost to any
  // getitimer/setitimer client: measured, and granted to the lateness bound.
  if (!g_clock.in_handler && g_clock.last_get >= 0) { g_clock.total_lag += g_clock.now - g_clock.last_get; g_clock.last_get = -1; }
  // Re-arming while an expiry is overdue but not yet delivered (jitter mode) cancels that delivery: the time since the
  // expiry was reported as "1 microsecond remaining" by getitimer and is lost to the client as well; granted likewise.
  if (!g_clock.in_handler && g_clock.armed && g_clock.now > g_clock.deadline) g_clock.total_lag += g_clock.now - g_clock.deadline;
  if (ov) {
    long rem = g_clock.armed ? g_clock.deadline - g_clock.now : 0;
    if (rem < 0) rem = 0;
    ov->it_interval.tv_sec = 0; ov->it_interval.tv_usec = 0;
    ov->it_value.tv_sec = rem / 1000000; ov->it_value.tv_usec = rem % 1000000;
  }
  long v = nv->it_value.tv_sec * 1000000L + nv->it_value.tv_usec;
  if (v == 0) g_clock.armed = false;
  else {
    g_clock.armed = true;
    g_clock.deadline = g_clock.now + v;
    g_clock.late = (g_clock.jitter_max > 0 && g_clock.draw_late) ? g_clock.draw_late() : 0;
  }
  return 0;
}

extern "C" int getitimer(__itimer_which_t which, struct itimerval* cv) {
  if (!g_clock.active || which != ITIMER_PROF)
    return (int) syscall(SYS_getitimer, (int) which, cv);
  ++g_clock.getitimers;
  if (!g_clock.in_handler) g_clock.last_get = g_clock.now;
  long rem = g_clock.armed ? g_clock.deadline - g_clock.now : 0;
  if (g_clock.armed && rem <= 0) rem = 1;
  if (g_clock.tick > 1 && rem > 0) rem = ((rem + g_clock.tick - 1) / g_clock.tick) * g_clock.tick;
  cv->it_interval.tv_sec = 0; cv->it_interval.tv_usec = 0;
  cv->it_value.tv_sec = rem / 1000000; cv->it_value.tv_usec = rem % 1000000;
  return 0;
}

extern "C" int __sigaction(int, const struct sigaction*, struct sigaction*);
extern "C" int sigaction(int signum, const struct sigaction* act, struct sigaction* old) {
  if (signum != SIGPROF) return __sigaction(signum, act, old);
  if (old) { memset(old, 0, sizeof *old); old->sa_handler = g_sigprof_handler; }
  if (act) g_sigprof_handler = act->sa_handler;
  return 0;
}
#endif
