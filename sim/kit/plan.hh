// Plans: operations and faults as data.  The text form is the replay file.
#ifndef KIT_PLAN_HH
#define KIT_PLAN_HH
#include "rng.hh"
#include <map>
#include <sstream>
#include <string>
#include <vector>
#include <fstream>

struct Op {
  std::string kind;
  std::vector<long> a;      // payload, interpreted modulo the legal ranges
  std::string fault;        // "" or alloc, allocs, abandon, flag, weight, timeout, illformed, io...
  long fk = 0;              // fault position / variant
  long arg(size_t i, long dflt = 0) const { return i < a.size() ? a[i] : dflt; }
  // non-negative payload modulo n
  long mod(size_t i, long n) const {
    if (n <= 0) return 0;
    long v = arg(i) % n;
    return v < 0 ? v + n : v;
  }
};

struct Plan {
  std::string harness, prop, domain = "-";
  u64 seed = 0;
  long run = 0;
  std::map<std::string, long> knobs;
  std::vector<Op> ops;
  std::string comment;      // trailing comment lines (expected violation record)

  long knob(const std::string& k, long dflt = 0) const {
    auto i = knobs.find(k);
    return i == knobs.end() ? dflt : i->second;
  }

  std::string text() const {
    std::ostringstream o;
    o << "ppl-sim-plan 1\n";
    o << "harness " << harness << " prop " << prop << " domain " << domain
      << " seed " << seed << " run " << run;
    for (auto& kv : knobs) o << " " << kv.first << "=" << kv.second;
    o << "\n";
    for (auto& op : ops) o << op_text(op) << "\n";
    if (!comment.empty()) o << comment;
    return o.str();
  }
  static std::string op_text(const Op& op) {
    std::ostringstream o;
    o << "op " << op.kind;
    if (!op.a.empty()) {
      o << " a=";
      for (size_t i = 0; i < op.a.size(); ++i) o << (i ? "," : "") << op.a[i];
    }
    if (!op.fault.empty()) o << " fault=" << op.fault << "@" << op.fk;
    return o.str();
  }
  u64 hash() const {
    u64 h = hash_str(harness + "/" + prop + "/" + domain);
    for (auto& kv : knobs) h = mix64(h, hash_str(kv.first) ^ (u64) kv.second);
    for (auto& op : ops) h = mix64(h, hash_str(op_text(op)));
    return h;
  }
  bool parse(std::istream& in, std::string& err) {
    std::string line;
    if (!std::getline(in, line) || line.compare(0, 12, "ppl-sim-plan") != 0) { err = "bad magic"; return false; }
    if (!std::getline(in, line)) { err = "no header"; return false; }
    {
      std::istringstream h(line);
      std::string k;
      while (h >> k) {
        if (k == "harness") h >> harness;
        else if (k == "prop") h >> prop;
        else if (k == "domain") h >> domain;
        else if (k == "seed") h >> seed;
        else if (k == "run") h >> run;
        else {
          size_t e = k.find('=');
          if (e == std::string::npos) { err = "bad header token " + k; return false; }
          knobs[k.substr(0, e)] = std::stol(k.substr(e + 1));
        }
      }
    }
    ops.clear();
    while (std::getline(in, line)) {
      if (line.empty()) continue;
      if (line[0] == '#') { comment += line + "\n"; continue; }
      std::istringstream l(line);
      std::string tok;
      l >> tok;
      if (tok != "op") { err = "bad line " + line; return false; }
      Op op;
      l >> op.kind;
      while (l >> tok) {
        if (tok.compare(0, 2, "a=") == 0) {
          std::string v = tok.substr(2);
          size_t p = 0;
          while (p < v.size()) {
            size_t q = v.find(',', p);
            if (q == std::string::npos) q = v.size();
            op.a.push_back(std::stol(v.substr(p, q - p)));
            p = q + 1;
          }
        }
        else if (tok.compare(0, 6, "fault=") == 0) {
          std::string v = tok.substr(6);
          size_t at = v.find('@');
          op.fault = v.substr(0, at);
          if (at != std::string::npos) op.fk = std::stol(v.substr(at + 1));
        }
        else { err = "bad op token " + tok; return false; }
      }
      ops.push_back(op);
    }
    return true;
  }
  bool load(const std::string& path, std::string& err) {
    std::ifstream f(path);
    if (!f) { err = "cannot open " + path; return false; }
    return parse(f, err);
  }
};
#endif
