// Simulation kernel: process-per-run executor, event-log hash, violation gate,
// plan minimisation, replay.  Header-only; each harness binary includes it once.
#ifndef KIT_RUNNER_HH
#define KIT_RUNNER_HH
#include "plan.hh"
#include <algorithm>
#include <chrono>
#include <cerrno>
#include <csignal>
#include <cstdio>
#include <cstdlib>
#include <cstring>
#include <fcntl.h>
#include <functional>
#include <set>
#include <poll.h>
#include <sstream>
#include <sys/mman.h>
#include <sys/resource.h>
#include <execinfo.h>
#include <sys/stat.h>
#include <sys/wait.h>
#include <unistd.h>

#if defined(__SANITIZE_ADDRESS__)
extern "C" __attribute__((used)) const char* __asan_default_options() {
  return "exitcode=77:detect_leaks=1:leak_check_at_exit=0:allocator_may_return_null=1:external_symbolizer_path=/usr/bin/llvm-symbolizer-14";
}
extern "C" __attribute__((used)) const char* __ubsan_default_options() {
  return "exitcode=77:halt_on_error=1:print_stacktrace=1";
}
#else
extern "C" __attribute__((used)) const char* __lsan_default_options() {
  return "handle_segv=0:handle_sigbus=0:handle_abort=0:handle_sigfpe=0:handle_sigill=0:exitcode=0:leak_check_at_exit=0:external_symbolizer_path=/usr/bin/llvm-symbolizer-14";
}
#endif
#include <exception>

struct Violation {
  std::string prop, monitor, klass, detail;
  long op = -1;
  std::string cls() const { return prop + "|" + monitor + "|" + klass; }
};

// Page shared between worker, child and fault-branch grandchildren: lets the
// survivor name the operation that was running when a process died.
struct Shared {
  volatile long cur_op;
  volatile long in_branch;
  char kind[64];
  char fault[32];
  char note[64];
  volatile long scratch[16];   // fault-branch grandchildren report counts here
};

static inline std::string sanitize(std::string s) {
  for (char& c : s) if (c == '\t' || c == '\n' || c == '\r') c = ' ';
  if (s.size() > 600) s.resize(600);
  return s;
}

struct Ctx {
  const Plan* plan = nullptr;
  Shared* sh = nullptr;
  int out_fd = -1;
  std::vector<Violation> viols;
  std::map<std::string, long> stats;
  std::set<u64> states;
  u64 h = 0x1234567;
  long ops_done = 0, faults_fired = 0;
  bool nontrivial = false;
  bool in_branch = false;

  void begin_op(long idx, const Op& op) {
    if (sh) {
      sh->cur_op = idx;
      strncpy(sh->kind, op.kind.c_str(), sizeof sh->kind - 1);
      sh->kind[sizeof sh->kind - 1] = 0;
      strncpy(sh->fault, op.fault.c_str(), sizeof sh->fault - 1);
      sh->fault[sizeof sh->fault - 1] = 0;
      sh->note[0] = 0;
    }
  }
  void note(const char* s) {
    if (sh) { strncpy(sh->note, s, sizeof sh->note - 1); sh->note[sizeof sh->note - 1] = 0; }
  }
  void violation(const std::string& prop, const std::string& monitor,
                 const std::string& klass, const std::string& detail, long op = -1) {
    Violation v;
    v.prop = prop; v.monitor = monitor; v.klass = klass; v.detail = sanitize(detail);
    v.op = op >= 0 ? op : (sh ? sh->cur_op : -1);
    viols.push_back(v);
  }
  void stat(const std::string& k, long n = 1) { stats[k] += n; }
  void state(const std::string& s) { states.insert(hash_str(s)); }
  void log(u64 x) { h = mix64(h, x); }
  void log(const std::string& s) { h = mix64(h, hash_str(s)); }

  // Serialise to the result pipe.  Used by the child at the end of the run
  // and by every fault-branch grandchild at the end of its branch.
  void flush(bool final) {
    std::string o;
    char buf[64];
    for (auto& v : viols)
      o += "V\t" + v.prop + "\t" + v.monitor + "\t" + sanitize(v.klass) + "\t" + std::to_string(v.op) + "\t" + v.detail + "\n";
    for (auto& s : stats) o += "S\t" + s.first + "\t" + std::to_string(s.second) + "\n";
    for (u64 a : states) { snprintf(buf, sizeof buf, "A\t%llx\n", (unsigned long long) a); o += buf; }
    snprintf(buf, sizeof buf, "%c\t%llx\n", final ? 'H' : 'B', (unsigned long long) h);
    o += buf;
    if (final) {
      o += "D\t" + std::to_string(ops_done) + "\t" + std::to_string(faults_fired) + "\t" + (nontrivial ? "1" : "0") + "\n";
      o += "E\n";
    }
    else {
      o += "F\t" + std::to_string(faults_fired) + "\n";
    }
    size_t off = 0;
    while (off < o.size()) {
      ssize_t w = write(out_fd, o.data() + off, o.size() - off);
      if (w < 0) { if (errno == EINTR) continue; break; }
      off += (size_t) w;
    }
  }
  void reset_for_branch() {
    viols.clear(); stats.clear(); states.clear(); faults_fired = 0; in_branch = true;
    if (sh) sh->in_branch = 1;
  }
};

// Execution deadline of a child: CPU seconds consumed by the process (RLIMIT_CPU -> SIGXCPU), so that a loaded machine
// cannot turn a slow run into a "hang"; a generous wall-clock alarm remains as a backstop for a child that sleeps.
#include <sys/resource.h>
static inline void kit_cpu_deadline(int seconds) {
  struct rusage ru; long used = 0;
  if (getrusage(RUSAGE_SELF, &ru) == 0) used = (long) ru.ru_utime.tv_sec + (long) ru.ru_stime.tv_sec + 1;
  struct rlimit rl;
  if (getrlimit(RLIMIT_CPU, &rl) == 0) { rl.rlim_cur = (rlim_t) (used + seconds); if (rl.rlim_max != RLIM_INFINITY && rl.rlim_cur > rl.rlim_max) rl.rlim_cur = rl.rlim_max; setrlimit(RLIMIT_CPU, &rl); }
  signal(SIGXCPU, SIG_DFL);
  signal(SIGALRM, SIG_DFL);
  alarm((unsigned) (seconds * 10 + 60));
}

static const long HANG_CONFIRM_FACTOR = 8;
struct Harness {
  virtual ~Harness() {}
  virtual const char* name() const = 0;
  // Properties this harness can be asked about.
  virtual Plan generate(Rng& rng, const std::string& prop, bool thorough) = 0;
  virtual void run(const Plan& plan, Ctx& ctx) = 0;
  virtual void warmup() {}
  virtual int child_seconds() const { return 60; }
  // knobs that the shrinker may try to lower (to the given minimum)
  virtual std::vector<std::pair<std::string, long> > shrink_knobs() const { return {}; }
};

struct RunResult {
  std::vector<Violation> viols;
  std::map<std::string, long> stats;
  std::set<u64> states;
  u64 h = 0;
  long ops_done = 0, faults_fired = 0;
  bool nontrivial = false, complete = false;
};

struct Kernel {
  Harness& hs;
  Shared* sh;
  std::string stderr_path;
  long executions = 0;

  explicit Kernel(Harness& h) : hs(h) {
    sh = (Shared*) mmap(nullptr, 4096, PROT_READ | PROT_WRITE, MAP_SHARED | MAP_ANONYMOUS, -1, 0);
    memset(sh, 0, sizeof *sh);
  }

  static std::string tail_of(const std::string& path, size_t n) {
    FILE* f = fopen(path.c_str(), "r");
    if (!f) return "";
    std::string all; char buf[4096]; size_t r;
    while ((r = fread(buf, 1, sizeof buf, f)) > 0) { all.append(buf, r); if (all.size() > 65536) all.erase(0, all.size() - 32768); }
    fclose(f);
    // prefer a sanitizer SUMMARY line
    size_t p = all.find("SUMMARY:");
    if (p != std::string::npos) { size_t e = all.find('\n', p); return all.substr(p, e == std::string::npos ? n : std::min(n, e - p)); }
    p = all.find("ERROR:");
    if (p != std::string::npos) { size_t e = all.find('\n', p); return all.substr(p, e == std::string::npos ? n : std::min(n, e - p)); }
    if (all.size() > n) all.erase(0, all.size() - n);
    return all;
  }

  RunResult execute(const Plan& plan) {
    std::vector<const Plan*> one(1, &plan);
    return execute_batch(one)[0];
  }

  // Runs the plans one after the other in ONE forked child (fresh copy of the
  // zygote).  The child stops after the first run that reports a violation,
  // and of course when it dies; the result vector then is a proper prefix and
  // the caller re-submits the rest.  Every returned result is complete in
  // itself (own event hash, own counters).
  // ---- zygote: a process forked right after warm-up, before the worker has done anything else.  It never
  // allocates; it only reads a request into a static buffer and forks the child that executes it.  Every
  // execution of a plan therefore starts from the same process image (same heap layout), whatever this
  // worker has done before - which is what makes even undefined behaviour replay.
  int z_ctl = -1, z_res = -1, z_st = -1;
  pid_t z_pid = -1;
  static const size_t ZBUF = 1 << 22;

  void start_zygote() {
    int ctl[2], res[2], st[2];
    if (pipe(ctl) || pipe(res) || pipe(st)) { perror("pipe"); _exit(2); }
    fflush(stdout); fflush(stderr);
    z_pid = fork();
    if (z_pid < 0) { perror("fork"); _exit(2); }
    if (z_pid == 0) {
      close(ctl[1]); close(res[0]); close(st[0]);
      zygote_loop(ctl[0], res[1], st[1]);
      _exit(0);
    }
    close(ctl[0]); close(res[1]); close(st[1]);
    z_ctl = ctl[1]; z_res = res[0]; z_st = st[0];
    fcntl(z_res, F_SETFL, fcntl(z_res, F_GETFL) | O_NONBLOCK);
  }
  static bool read_full(int fd, void* buf, size_t n) { size_t off = 0; while (off < n) { ssize_t r = read(fd, (char*) buf + off, n - off); if (r < 0 && errno == EINTR) continue; if (r <= 0) return false; off += (size_t) r; } return true; }
  static bool write_full(int fd, const void* buf, size_t n) { size_t off = 0; while (off < n) { ssize_t r = write(fd, (const char*) buf + off, n - off); if (r < 0 && errno == EINTR) continue; if (r <= 0) return false; off += (size_t) r; } return true; }

  void zygote_loop(int ctl, int res, int st) {
    static char buf[ZBUF];
    static char errpath[512];
    while (true) {
      unsigned len = 0, elen = 0;
      if (!read_full(ctl, &len, sizeof len) || len >= ZBUF) _exit(0);
      if (!read_full(ctl, &elen, sizeof elen) || elen >= sizeof errpath) _exit(0);
      if (elen && !read_full(ctl, errpath, elen)) _exit(0);
      errpath[elen] = 0;
      if (!read_full(ctl, buf, len)) _exit(0);
      buf[len] = 0;
      pid_t c = fork();
      if (c < 0) _exit(3);
      if (c == 0) {
        close(ctl); close(st);
        if (elen) { int e = open(errpath, O_WRONLY | O_CREAT | O_TRUNC, 0644); if (e >= 0) { dup2(e, 2); close(e); } }
        struct rlimit rl; rl.rlim_cur = 8u << 20; rl.rlim_max = RLIM_INFINITY;
        setrlimit(RLIMIT_STACK, &rl);
        struct rlimit core; core.rlim_cur = core.rlim_max = 0; setrlimit(RLIMIT_CORE, &core);
        std::set_terminate([]() { _exit(78); });
        if (getenv("VERIF_CRASH_BT")) {     // debug aid: call stack of a fatal signal (inherited by fault-branch grandchildren)
          auto h = [](int sg) { void* bt[40]; int n = backtrace(bt, 40); dprintf(2, "CRASH signal %d\n", sg); backtrace_symbols_fd(bt, n, 2); signal(sg, SIG_DFL); raise(sg); };
          signal(SIGABRT, h); signal(SIGSEGV, h); signal(SIGFPE, h);
        }
        // the request: plans separated by a line "\x1e"
        std::vector<Plan> plans;
        {
          std::string all(buf, len); size_t p = 0;
          while (p < all.size()) {
            size_t e = all.find("\x1e\n", p);
            std::string one = all.substr(p, e == std::string::npos ? std::string::npos : e - p);
            p = e == std::string::npos ? all.size() : e + 2;
            Plan pl; std::string err; std::istringstream in(one);
            if (pl.parse(in, err)) plans.push_back(pl);
          }
        }
        for (size_t j = 0; j < plans.size(); ++j) {
          { const char* ov = getenv("VERIF_CHILD_SECONDS"); long mult = sh->scratch[14] > 1 ? sh->scratch[14] : 1;
            kit_cpu_deadline((int) ((ov ? atoi(ov) : hs.child_seconds()) * mult)); }   // (override: debug aid; multiplier: hang confirmation)
          sh->scratch[15] = (long) j; sh->cur_op = -1; sh->in_branch = 0; sh->kind[0] = 0; sh->fault[0] = 0; sh->note[0] = 0;
          Ctx ctx; ctx.plan = &plans[j]; ctx.sh = sh; ctx.out_fd = res;
          hs.run(plans[j], ctx);
          bool stop = !ctx.viols.empty();
          ctx.flush(true);
          if (stop) break;
        }
        _exit(0);
      }
      int status = 0;
      while (waitpid(c, &status, 0) < 0 && errno == EINTR) {}
      if (!write_full(st, &status, sizeof status)) _exit(0);
    }
  }

  std::vector<RunResult> execute_batch(const std::vector<const Plan*>& plans) {
    std::vector<RunResult> out;
    if (z_pid < 0) start_zygote();
    sh->cur_op = -1; sh->in_branch = 0; sh->kind[0] = 0; sh->fault[0] = 0; sh->note[0] = 0; sh->scratch[15] = -1;
    std::string req;
    for (size_t j = 0; j < plans.size(); ++j) { Plan p = *plans[j]; p.comment.clear(); req += p.text(); req += "\x1e\n"; }
    unsigned len = (unsigned) req.size(), elen = (unsigned) stderr_path.size();
    if (len >= ZBUF || !write_full(z_ctl, &len, sizeof len) || !write_full(z_ctl, &elen, sizeof elen)
        || (elen && !write_full(z_ctl, stderr_path.data(), elen)) || !write_full(z_ctl, req.data(), len)) { fprintf(stderr, "kit: zygote request failed\n"); _exit(2); }
    // drain results until the zygote reports the child's exit status
    std::string data; char buf[65536]; int st = 0; bool have_st = false;
    while (!have_st) {
      struct pollfd pf[2] = { { z_res, POLLIN, 0 }, { z_st, POLLIN, 0 } };
      int pr = poll(pf, 2, -1);
      if (pr < 0) { if (errno == EINTR) continue; perror("poll"); _exit(2); }
      if (pf[0].revents & POLLIN) { ssize_t r; while ((r = read(z_res, buf, sizeof buf)) > 0) data.append(buf, (size_t) r); }
      if (pf[1].revents & (POLLIN | POLLHUP)) { if (!read_full(z_st, &st, sizeof st)) { fprintf(stderr, "kit: zygote died\n"); _exit(2); } have_st = true; }
    }
    { ssize_t r; while ((r = read(z_res, buf, sizeof buf)) > 0) data.append(buf, (size_t) r); }
    // split the stream at the end-of-run markers
    size_t p = 0;
    while (p < data.size()) {
      size_t e = data.find("\nE\n", p);
      bool whole = e != std::string::npos;
      std::string chunk = whole ? data.substr(p, e + 3 - p) : data.substr(p);
      p = whole ? e + 3 : data.size();
      RunResult rr;
      parse(chunk, rr);
      if (!whole && chunk.find_first_not_of(" \n") == std::string::npos) break;
      out.push_back(rr);
      ++executions;
    }
    bool died = !WIFEXITED(st) || WEXITSTATUS(st) != 0;
    if (died) {
      long j = sh->scratch[15];
      if (j < 0) j = 0;
      // results up to j-1 are complete; run j died
      while ((long) out.size() > j + 1) out.pop_back();
      if ((long) out.size() <= j) { out.resize((size_t) j + 1); ++executions; }
      RunResult& rr = out[(size_t) j];
      const Plan& plan = *plans[(size_t) std::min<long>(j, (long) plans.size() - 1)];
      Violation v;
      v.prop = plan.prop; v.op = sh->cur_op;
      std::string how;
      if (WIFSIGNALED(st)) {
        int sg = WTERMSIG(st);
        if (sg == SIGXCPU) { v.monitor = "hang"; how = "cputime"; }
        else if (sg == SIGALRM) { v.monitor = "hang"; how = "wallclock"; }
        else { v.monitor = "crash"; how = std::string("sig") + std::to_string(sg); }
      }
      else if (WIFEXITED(st) && WEXITSTATUS(st) == 77) { v.monitor = "sanitizer"; how = "report"; }
      else if (WIFEXITED(st) && WEXITSTATUS(st) == 78) { v.monitor = "terminate"; how = "std::terminate"; }
      else { v.monitor = "crash"; how = "exit" + std::to_string(WIFEXITED(st) ? WEXITSTATUS(st) : -1); }
      v.klass = plan.domain + "|" + sh->kind + "|" + (sh->fault[0] ? sh->fault : "-") + "|" + how
        + (sh->in_branch ? "|branch" : "") + (sh->note[0] == '@' ? std::string("|") + (const char*) sh->note : std::string());
      v.detail = sanitize("op#" + std::to_string(sh->cur_op) + " " + sh->kind + " note=" + sh->note + " :: "
                          + (stderr_path.empty() ? "" : tail_of(stderr_path, 300)));
      rr.viols.push_back(v);
      rr.complete = false;
      rr.h = mix64(rr.h, hash_str(v.cls()));
    }
    if (out.empty()) { out.resize(1); }
    return out;
  }

  static void parse(const std::string& data, RunResult& rr) {
    size_t p = 0;
    u64 h = 0;
    while (p < data.size()) {
      size_t e = data.find('\n', p);
      if (e == std::string::npos) e = data.size();
      std::string line = data.substr(p, e - p);
      p = e + 1;
      if (line.empty()) continue;
      std::vector<std::string> f;
      size_t q = 0;
      while (true) {
        size_t t = line.find('\t', q);
        if (t == std::string::npos) { f.push_back(line.substr(q)); break; }
        f.push_back(line.substr(q, t - q));
        q = t + 1;
      }
      if (f[0] == "V" && f.size() >= 6) {
        Violation v; v.prop = f[1]; v.monitor = f[2]; v.klass = f[3]; v.op = atol(f[4].c_str()); v.detail = f[5];
        rr.viols.push_back(v);
      }
      else if (f[0] == "S" && f.size() >= 3) rr.stats[f[1]] += atol(f[2].c_str());
      else if (f[0] == "A" && f.size() >= 2) rr.states.insert(strtoull(f[1].c_str(), nullptr, 16));
      else if (f[0] == "B" && f.size() >= 2) h = mix64(h, strtoull(f[1].c_str(), nullptr, 16));
      else if (f[0] == "F" && f.size() >= 2) rr.faults_fired += atol(f[1].c_str());
      else if (f[0] == "H" && f.size() >= 2) h = mix64(h, strtoull(f[1].c_str(), nullptr, 16));
      else if (f[0] == "D" && f.size() >= 4) { rr.ops_done = atol(f[1].c_str()); rr.faults_fired += atol(f[2].c_str()); rr.nontrivial = f[3] == "1"; }
      else if (f[0] == "E") rr.complete = true;
    }
    for (auto& v : rr.viols) h = mix64(h, hash_str(v.cls()));
    rr.h = h;
  }

  static bool has_cls(const RunResult& rr, const std::string& cls) {
    for (auto& v : rr.viols) if (v.cls() == cls) return true;
    return false;
  }

  // Delta debugging over the operation list, then per-op simplification.
  Plan shrink(Plan plan, const std::string& cls, int budget) {
    // (also bounded in wall-clock time: re-executions of a plan whose fault branches run into their CPU limit take half a
    //  minute each, and a worker that minimises for an hour holds up the whole batch)
    time_t shrink_t0 = time(nullptr);
    auto test = [&](const Plan& p) { if (budget <= 0 || time(nullptr) - shrink_t0 > 150) { budget = 0; return false; } --budget; return has_cls(execute(p), cls); };
    // 1. ddmin
    size_t n = 2;
    while (plan.ops.size() >= 2 && budget > 0) {
      size_t len = plan.ops.size();
      size_t chunk = std::max<size_t>(1, len / n);
      bool reduced = false;
      for (size_t start = 0; start < len && budget > 0; start += chunk) {
        Plan cand = plan;
        size_t end = std::min(len, start + chunk);
        cand.ops.erase(cand.ops.begin() + (long) start, cand.ops.begin() + (long) end);
        if (cand.ops.empty()) continue;
        if (test(cand)) { plan = cand; n = std::max<size_t>(n - 1, 2); reduced = true; break; }
      }
      if (!reduced) {
        if (chunk == 1) break;
        n = std::min(plan.ops.size(), n * 2);
      }
    }
    // 2. faults: drop, lower
    for (size_t i = 0; i < plan.ops.size() && budget > 0; ++i) {
      if (plan.ops[i].fault.empty()) continue;
      Plan cand = plan; cand.ops[i].fault.clear(); cand.ops[i].fk = 0;
      if (test(cand)) { plan = cand; continue; }
      for (long k : { 0L, plan.ops[i].fk / 2, plan.ops[i].fk - 1 }) {
        if (k < 0 || k >= plan.ops[i].fk) continue;
        cand = plan; cand.ops[i].fk = k;
        if (test(cand)) { plan = cand; }
      }
    }
    // 3. payload toward 0 / 1
    for (size_t i = 0; i < plan.ops.size() && budget > 0; ++i) {
      for (size_t j = 0; j < plan.ops[i].a.size() && budget > 0; ++j) {
        long v = plan.ops[i].a[j];
        if (v == 0) continue;
        for (long k : { 0L, 1L, v / 2 }) {
          if (k == v || (k != 0 && std::labs(k) >= std::labs(v))) continue;
          Plan cand = plan; cand.ops[i].a[j] = k;
          if (test(cand)) { plan = cand; break; }
        }
      }
    }
    // 4. knobs
    for (auto& kb : hs.shrink_knobs()) {
      while (budget > 0 && plan.knob(kb.first, kb.second) > kb.second) {
        Plan cand = plan; cand.knobs[kb.first] = plan.knob(kb.first) - 1;
        if (test(cand)) plan = cand; else break;
      }
    }
    // 5. one more single-op removal pass
    for (size_t i = plan.ops.size(); i-- > 0 && budget > 0 && plan.ops.size() > 1;) {
      Plan cand = plan; cand.ops.erase(cand.ops.begin() + (long) i);
      if (test(cand)) plan = cand;
    }
    return plan;
  }
};

static inline u64 run_seed(u64 seed, const std::string& harness, const std::string& prop, long run) {
  return mix64(mix64(seed, hash_str(harness + ":" + prop)), (u64) run);
}

static inline std::string esc(const std::string& s) {
  std::string o;
  for (char c : s) o += (c == '\n') ? '\x1f' : c;
  return o;
}

static inline double now_s() {
  return std::chrono::duration<double>(std::chrono::steady_clock::now().time_since_epoch()).count();
}

struct BatchOpts {
  std::string prop, out = "out/tmp", tier = "quick";
  u64 seed = 1;
  long runs = 100, workers = 8, first = 0, batch = 1;
  double max_s = 1e9;
  bool det = false, need_fault = false;
  int shrink_budget = 300;
};

static int worker_main(Harness& hs, Kernel& k, const BatchOpts& o, long w) {
  k.stderr_path = o.out + "/w" + std::to_string(w) + ".stderr";
  std::string resp = o.out + "/w" + std::to_string(w) + ".res";
  FILE* res = fopen(resp.c_str(), "w");
  if (!res) { perror(resp.c_str()); return 2; }
  std::map<std::string, long> stats;
  std::set<u64> states, nontrivial;
  std::map<std::string, std::pair<long, long> > seen;   // cls -> (count, first run)
  std::vector<std::string> samples;
  long runs = 0, ops = 0, faults = 0, other = 0;
  double t0 = now_s();
  bool thorough = o.tier == "thorough";
  std::vector<long> todo;
  for (long i = o.first + w; i < o.first + o.runs; i += o.workers) todo.push_back(i);
  size_t pos = 0;
  std::vector<Plan> plans; std::vector<RunResult> results; size_t rpos = 0;
  while (true) {
    if (rpos >= results.size()) {
      if (pos >= todo.size()) break;
      if (now_s() - t0 > o.max_s) { stats["kit.stopped_by_time_limit"] = 1; break; }
      plans.clear();
      for (size_t k = pos; k < todo.size() && k < pos + (size_t) o.batch; ++k) {
        Rng rng(run_seed(o.seed, hs.name(), o.prop, todo[k]));
        Plan plan = hs.generate(rng, o.prop, thorough);
        plan.harness = hs.name(); plan.prop = o.prop; plan.seed = o.seed; plan.run = todo[k];
        plans.push_back(plan);
      }
      std::vector<const Plan*> pp; for (auto& pl : plans) pp.push_back(&pl);
      results = k.execute_batch(pp);
      rpos = 0;
    }
    long i = todo[pos];
    const Plan& plan = plans[rpos];
    RunResult rr = results[rpos];
    ++rpos; ++pos;
    if (rpos >= results.size()) { /* the rest of the batch (if any) is re-submitted */ }
    ++runs; ops += rr.ops_done; faults += rr.faults_fired;
    for (auto& s : rr.stats) stats[s.first] += s.second;
    states.insert(rr.states.begin(), rr.states.end());
    bool nt = rr.nontrivial && (!o.need_fault || rr.faults_fired > 0);
    if (nt) nontrivial.insert(plan.hash());
    if (o.det) fprintf(res, "DH\t%ld\t%llx\n", i, (unsigned long long) rr.h);
    if (samples.size() < 3 && nt && (i % 7 == 0 || i >= o.first + o.runs - 3 * o.workers)) samples.push_back(plan.text());
    for (auto& v : rr.viols) {
      if (v.prop != o.prop) { ++other; stats["other_property." + v.prop + "." + v.monitor]++; continue; }
      std::string cls = v.cls();
      auto it = seen.find(cls);
      if (it != seen.end()) { it->second.first++; continue; }
      seen[cls] = std::make_pair(1L, i);
      // claim the class across workers
      char hb[32]; snprintf(hb, sizeof hb, "%016llx", (unsigned long long) hash_str(cls));
      std::string claim = o.out + "/claim-" + hb;
      int cfd = open(claim.c_str(), O_WRONLY | O_CREAT | O_EXCL, 0644);
      if (cfd < 0) continue;
      close(cfd);
      // Gate: two fresh re-executions must reproduce class and event hash.
      RunResult g1 = k.execute(plan), g2 = k.execute(plan);
      // A hang is only reported when the plan also exhausts a budget HANG_CONFIRM_FACTOR times larger: the domains' algorithms
      // are exponential in the worst case, and a plan that merely needs minutes is a heavy workload, not a livelock.
      bool slow_not_hung = false;
      if (v.monitor == "hang" && Kernel::has_cls(g1, cls) && Kernel::has_cls(g2, cls)) {
        k.sh->scratch[14] = HANG_CONFIRM_FACTOR; RunResult g3 = k.execute(plan); k.sh->scratch[14] = 0;
        if (!Kernel::has_cls(g3, cls)) { slow_not_hung = true; stats["kit.slow_plan_completes_with_larger_budget"]++; }
      }
      if (v.monitor == "hang" && !slow_not_hung && (!Kernel::has_cls(g1, cls) || !Kernel::has_cls(g2, cls))) {
        // a plan that exceeded its CPU budget once and completes when re-executed is a slow plan at the edge of
        // the budget, not a hang: counted, not reported
        stats["kit.slow_plan_near_budget"]++;
        slow_not_hung = true;
      }
      if (slow_not_hung) {
        // not a violation: recorded as such (one judgement per class and batch: each costs minutes)
        fprintf(res, "VR\t%s\tslow\t-\t%s\n", cls.c_str(), v.detail.c_str());
        continue;
      }
      if (!Kernel::has_cls(g1, cls) || !Kernel::has_cls(g2, cls) || (v.monitor != "hang" && (g1.h != g2.h || g1.h != rr.h))) {
        fprintf(res, "VR\t%s\tflaky\t-\t%s\n", cls.c_str(), v.detail.c_str());
        std::string fp = o.out + "/flaky-" + hb + ".plan";
        FILE* f = fopen(fp.c_str(), "w"); if (f) { fputs(plan.text().c_str(), f); fclose(f); }
        continue;
      }
      // a hang costs the whole wall-clock limit per re-execution: shrink those only a little
      Plan small = k.shrink(plan, cls, v.monitor == "hang" ? std::min(o.shrink_budget, 12) : o.shrink_budget);
      RunResult fin = k.execute(small);
      std::string detail = v.detail;
      for (auto& fv : fin.viols) if (fv.cls() == cls) { detail = fv.detail; break; }
      if (!Kernel::has_cls(fin, cls)) { small = plan; }
      small.comment = "# expected: " + cls + "\n# detail: " + detail + "\n";
      std::string dir = "out/replays/" + o.prop;
      std::string mk = "mkdir -p " + dir; if (system(mk.c_str()) != 0) {}
      std::string rp = dir + "/" + hb + ".plan";
      FILE* f = fopen(rp.c_str(), "w");
      if (f) { fputs(small.text().c_str(), f); fclose(f); }
      fprintf(res, "VR\t%s\tconfirmed\t%s\t%s\n", cls.c_str(), rp.c_str(), detail.c_str());
      fflush(res);
    }
  }
  fprintf(res, "R\t%ld\t%ld\t%ld\t%ld\t%ld\n", runs, ops, faults, other, k.executions);
  for (auto& s : stats) fprintf(res, "S\t%s\t%ld\n", s.first.c_str(), s.second);
  for (u64 a : states) fprintf(res, "A\t%llx\n", (unsigned long long) a);
  for (u64 a : nontrivial) fprintf(res, "NT\t%llx\n", (unsigned long long) a);
  for (auto& s : seen) fprintf(res, "X\t%s\t%ld\t%ld\n", s.first.c_str(), s.second.first, s.second.second);
  for (auto& s : samples) fprintf(res, "SAMPLE\t%s\n", esc(s).c_str());
  fprintf(res, "T\t%.3f\n", now_s() - t0);
  fprintf(res, "END\n");
  fclose(res);
  return 0;
}

static int kit_main(int argc, char** argv, Harness& hs) {
  // The zygote must be created before this process does anything that depends on its arguments, so that
  // batch workers and a later `replay` start their children from the same image: only C-string scanning here.
  const char* cmode = argc > 1 ? argv[1] : "";
  auto rawarg = [&](const char* name, const char* dflt) -> const char* {
    for (int i = 2; i + 1 < argc; ++i) if (!strcmp(argv[i], name)) return argv[i + 1];
    return dflt;
  };
  if (!strcmp(cmode, "batch")) {
    long workers = atol(rawarg("--workers", "8"));
    { char mk[600]; snprintf(mk, sizeof mk, "mkdir -p %s", rawarg("--out", "out/tmp")); if (system(mk) != 0) return 2; }
    std::vector<pid_t> kids;
    for (long w = 0; w < workers; ++w) {
      fflush(stdout);
      pid_t c = fork();
      if (c == 0) {
        Kernel k(hs);
        hs.warmup();
        k.start_zygote();
        BatchOpts o;
        o.prop = rawarg("--prop", "");
        o.out = rawarg("--out", "out/tmp");
        o.tier = rawarg("--tier", "quick");
        o.seed = strtoull(rawarg("--seed", "1"), nullptr, 10);
        o.runs = atol(rawarg("--runs", "100"));
        o.first = atol(rawarg("--first", "0"));
        o.workers = workers;
        o.max_s = atof(rawarg("--max-s", "1e9"));
        o.det = !strcmp(rawarg("--det", "0"), "1");
        o.need_fault = !strcmp(rawarg("--need-fault", "0"), "1");
        o.batch = std::max(1L, atol(rawarg("--batch", "1")));
        o.shrink_budget = atoi(rawarg("--shrink-budget", "300"));
        _exit(worker_main(hs, k, o, w));
      }
      kids.push_back(c);
    }
    int bad = 0;
    for (pid_t c : kids) { int st; waitpid(c, &st, 0); if (!WIFEXITED(st) || WEXITSTATUS(st) != 0) ++bad; }
    if (bad) { fprintf(stderr, "kit: %d worker(s) failed\n", bad); return 2; }
    return 0;
  }
  if (!strcmp(cmode, "replay")) {
    if (argc < 3) return 2;
    Kernel k(hs);
    hs.warmup();
    k.start_zygote();
    Plan plan; std::string err;
    if (!plan.load(argv[2], err)) { fprintf(stderr, "replay: %s\n", err.c_str()); return 2; }
    k.stderr_path = rawarg("--stderr", "");
    // debug aid: `replay target.plan --after a.plan,b.plan` executes a.plan, b.plan and then the target in ONE child,
    // as a batch does (to look for state that survives from one run to the next)
    std::string after = rawarg("--after", "");
    RunResult rr;
    if (!after.empty()) {
      std::vector<Plan> pre; size_t p0 = 0;
      while (p0 <= after.size()) { size_t e = after.find(',', p0); std::string f = after.substr(p0, e == std::string::npos ? std::string::npos : e - p0); p0 = e == std::string::npos ? after.size() + 1 : e + 1;
        if (f.empty()) continue; Plan q; if (!q.load(f.c_str(), err)) { fprintf(stderr, "replay: %s\n", err.c_str()); return 2; } pre.push_back(q); }
      std::vector<const Plan*> ps; for (auto& q : pre) ps.push_back(&q); ps.push_back(&plan);
      std::vector<RunResult> out = k.execute_batch(ps);
      rr = out.back();
    }
    else rr = k.execute(plan);
    int bad = 0;
    for (auto& v : rr.viols) {
      printf("violation\t%s\top#%ld\t%s\n", v.cls().c_str(), v.op, v.detail.c_str());
      if (v.prop == plan.prop) ++bad;
    }
    printf("hash\t%llx\tops\t%ld\tfaults\t%ld\tcomplete\t%d\n", (unsigned long long) rr.h, rr.ops_done, rr.faults_fired, (int) rr.complete);
    if (!strcmp(rawarg("--stats", "0"), "1")) for (auto& s : rr.stats) printf("stat\t%s\t%ld\n", s.first.c_str(), s.second);
    return bad ? 1 : 0;
  }
  std::string mode = cmode;
  auto argval = [&](const char* name, const char* dflt) -> std::string { return rawarg(name, dflt); };
  if (mode == "gen") {
    std::string prop = argval("--prop", "");
    u64 seed = strtoull(argval("--seed", "1").c_str(), nullptr, 10);
    long run = atol(argval("--run", "0").c_str());
    hs.warmup();
    Rng rng(run_seed(seed, hs.name(), prop, run));
    Plan plan = hs.generate(rng, prop, argval("--tier", "quick") == "thorough");
    plan.harness = hs.name(); plan.prop = prop; plan.seed = seed; plan.run = run;
    fputs(plan.text().c_str(), stdout);
    return 0;
  }
  fprintf(stderr, "usage: %s batch|replay|gen ...\n", argv[0]);
  return 2;
}
#endif
