# Builds libppl from /repo's *current working tree* with the verification
# guard on, plus the simulation harnesses.  Flavours: plain (-O2, LSan at
# link time where a harness asks for it) and asan (ASan+UBSan).
REPO   ?= /repo
FL     ?= plain
BUILDROOT ?= _build
B      := $(BUILDROOT)/$(FL)
SRCS   := $(shell sed -n '/^libppl_la_SOURCES/,/^$$/p' $(REPO)/src/Makefile.am | grep -v '^#' | grep -o '[A-Za-z0-9_-]*\.cc')
OBJS   := $(patsubst %.cc,$(B)/lib/%.o,$(SRCS))
INC    := -I$(REPO) -I$(REPO)/src
DEFS   := -DHAVE_CONFIG_H -DPPL_VERIF
COMMON := -std=gnu++17 -w -frounding-math -MMD -MP $(DEFS) $(INC)
ifeq ($(FL),asan)
OPT    := -O1 -g -fsanitize=address,undefined -fno-sanitize=nonnull-attribute -fno-sanitize-recover=undefined -fno-omit-frame-pointer
LDSAN  := -fsanitize=address,undefined
else
OPT    := -O2 -g1 -fno-omit-frame-pointer
LDSAN  := -fsanitize=leak
endif
CXX    := g++
KIT    := sim/kit
HARNESSES := wd obj_poly obj_shapes obj_grid obj_pset obj_prod rows mip

all: lib $(addprefix $(B)/bin/,$(HARNESSES))

lib: $(B)/libppl.a

$(B)/lib/%.o: $(REPO)/src/%.cc
	@mkdir -p $(dir $@)
	$(CXX) $(COMMON) $(OPT) -c $< -o $@

$(B)/libppl.a: $(OBJS)
	@rm -f $@
	ar rcs $@ $(OBJS)

$(B)/h/%.o: sim/harness/%.cc
	@mkdir -p $(dir $@)
	$(CXX) $(COMMON) $(OPT) -fno-access-control -I sim -c $< -o $@

$(B)/k/%.o: sim/kit/%.cc
	@mkdir -p $(dir $@)
	$(CXX) $(COMMON) $(OPT) -I sim -c $< -o $@

# wd: simulated timer, no allocator shim; ASan flavour sees freed handlers.
$(B)/bin/wd: $(B)/h/wd.o $(B)/libppl.a
	@mkdir -p $(dir $@)
	$(CXX) $(OPT) -o $@ $(B)/h/wd.o $(B)/libppl.a -lgmpxx -lgmp $(if $(filter asan,$(FL)),$(LDSAN),)

# plain harnesses without the allocator shim
$(B)/bin/rows: $(B)/h/rows.o $(B)/libppl.a
	@mkdir -p $(dir $@)
	$(CXX) $(OPT) -o $@ $< $(B)/libppl.a -lgmpxx -lgmp $(if $(filter asan,$(FL)),$(LDSAN),)

$(B)/bin/mip: $(B)/h/mip.o $(B)/libppl.a
	@mkdir -p $(dir $@)
	$(CXX) $(OPT) -o $@ $< $(B)/libppl.a -lgmpxx -lgmp $(LDSAN)

$(B)/bin/pip: $(B)/h/pip.o $(B)/libppl.a
	@mkdir -p $(dir $@)
	$(CXX) $(OPT) -o $@ $< $(B)/libppl.a -lgmpxx -lgmp $(LDSAN)

$(B)/bin/widen: $(B)/h/widen.o $(B)/libppl.a
	@mkdir -p $(dir $@)
	$(CXX) $(OPT) -o $@ $< $(B)/libppl.a -lgmpxx -lgmp $(LDSAN)

# obj family: allocator shim inside; LSan (plain) or ASan+LSan at link time
$(B)/bin/obj_%: $(B)/h/obj_%.o $(B)/libppl.a
	@mkdir -p $(dir $@)
	$(CXX) $(OPT) -o $@ $< $(B)/libppl.a -lgmpxx -lgmp $(LDSAN)

clean:
	rm -rf _build

-include $(OBJS:.o=.d)
-include $(wildcard $(B)/h/*.d) $(wildcard $(B)/k/*.d)
.SECONDARY:
.PHONY: all lib clean
