# Builds libppl from /repo's *current working tree* with the verification
# guard on, plus the simulation harnesses.  Flavours: plain (-O2, LSan at
# link time where a harness asks for it) and asan (ASan+UBSan).
REPO   ?= /repo
FL     ?= plain
BUILDROOT ?= _build
B      := $(BUILDROOT)/$(FL)
# no built-in rules: nothing is ever compiled into /repo
MAKEFLAGS += -r
.SUFFIXES:
SRCS   := $(shell sed -n '/^libppl_la_SOURCES/,/^$$/p' $(REPO)/src/Makefile.am | grep -v '^#' | grep -o '[A-Za-z0-9_-]*\.cc')
OBJS   := $(patsubst %.cc,$(B)/lib/%.o,$(SRCS))
INC    := -I$(REPO) -I$(REPO)/src
DEFS   := -DHAVE_CONFIG_H -DPPL_VERIF
COMMON := -std=gnu++17 -w -frounding-math -MMD -MP $(DEFS) $(INC)
ifeq ($(FL),asan)
OPT    := -O1 -g -fsanitize=address,undefined -fno-sanitize=nonnull-attribute -fno-sanitize-recover=undefined -fno-omit-frame-pointer
LDSAN  := -fsanitize=address,undefined
else
OPT    := -O2 -g1 -fno-omit-frame-pointer
LDSAN  := -fsanitize=leak
endif
# PPL_UNREACHABLE calls the WEAK function ppl_unreachable(): a weak reference does not pull assertions.o out of the
# static archive and would resolve to address 0 (SIGSEGV instead of the abort() of the shared library)
LDSAN  += -Wl,-u,_ZN23Parma_Polyhedra_Library15ppl_unreachableEv -Wl,-u,_ZN23Parma_Polyhedra_Library19ppl_unreachable_msgEPKcS1_jS1_
CXX    := g++
KIT    := sim/kit
HARNESSES := wd obj_poly obj_shapes obj_float obj_grid obj_pset obj_prod rows mip pip widen
# the C interface (14 generated translation units, ~1800 entry points) is built in the plain flavour only
ifneq ($(FL),asan)
HARNESSES += capi
endif

all: lib $(addprefix $(B)/bin/,$(HARNESSES))

lib: $(B)/libppl.a

$(B)/lib/%.o: $(REPO)/src/%.cc
	@mkdir -p $(dir $@)
	$(CXX) $(COMMON) $(OPT) -c $< -o $@

$(B)/libppl.a: $(OBJS)
	@rm -f $@
	ar rcs $@ $(OBJS)

$(B)/h/%.o: sim/harness/%.cc
	@mkdir -p $(dir $@)
	$(CXX) $(COMMON) $(OPT) -fno-access-control -I sim -I$(REPO)/interfaces -c $< -o $@

$(B)/k/%.o: sim/kit/%.cc
	@mkdir -p $(dir $@)
	$(CXX) $(COMMON) $(OPT) -I sim -c $< -o $@

# wd: simulated timer, no allocator shim; ASan flavour sees freed handlers.
$(B)/bin/wd: $(B)/h/wd.o $(B)/libppl.a
	@mkdir -p $(dir $@)
	$(CXX) $(OPT) -o $@ $(B)/h/wd.o $(B)/libppl.a -lgmpxx -lgmp $(if $(filter asan,$(FL)),$(LDSAN),)

# plain harnesses without the allocator shim
$(B)/bin/rows: $(B)/h/rows.o $(B)/libppl.a
	@mkdir -p $(dir $@)
	$(CXX) $(OPT) -o $@ $< $(B)/libppl.a -lgmpxx -lgmp $(if $(filter asan,$(FL)),$(LDSAN),)

$(B)/bin/mip: $(B)/h/mip.o $(B)/libppl.a
	@mkdir -p $(dir $@)
	$(CXX) $(OPT) -o $@ $< $(B)/libppl.a -lgmpxx -lgmp $(LDSAN)

$(B)/bin/pip: $(B)/h/pip.o $(B)/libppl.a
	@mkdir -p $(dir $@)
	$(CXX) $(OPT) -o $@ $< $(B)/libppl.a -lgmpxx -lgmp $(LDSAN)

$(B)/bin/widen: $(B)/h/widen.o $(B)/libppl.a
	@mkdir -p $(dir $@)
	$(CXX) $(OPT) -o $@ $< $(B)/libppl.a -lgmpxx -lgmp $(LDSAN)

# ---- C interface: regenerated with m4 from the current tree, compiled, plus generated thunks
CAPI_DEPS := $(wildcard $(REPO)/interfaces/*.m4 $(REPO)/interfaces/C/*.m4 $(REPO)/interfaces/C/ppl_c_implementation_common.cc $(REPO)/interfaces/C/ppl_c_implementation_common_*.hh $(REPO)/interfaces/C/ppl_c_header.h $(REPO)/interfaces/C/ppl_c_version.h)
# The generator writes the list of generated translation units into an included makefile: make re-reads it
# after (re)generating, so that the objects are ordinary prerequisites with ordinary header dependencies
# (a change in any /repo header rebuilds the interface objects that include it).
$(B)/capi_src/objs.mk: $(CAPI_DEPS) tools/gen_capi.sh
	@mkdir -p $(B)/capi_src
	REPO=$(REPO) tools/gen_capi.sh $(abspath $(B)/capi_src) >/dev/null
	echo '#include "ppl_c.h"' | gcc -E -x c -I$(B)/capi_src - | grep -v '^#' > $(B)/capi_src/ppl_c_pp.h
	echo "CAPI_SRCS := $$(cd $(B)/capi_src && ls ppl_c_*.cc | tr '\n' ' ')" > $@

ifneq ($(FL),asan)
-include $(B)/capi_src/objs.mk
endif
CAPI_OBJS := $(patsubst %.cc,$(B)/capi_obj/%.o,$(CAPI_SRCS))

$(B)/capi_obj/%.o: $(B)/capi_src/%.cc
	@mkdir -p $(dir $@)
	$(CXX) $(COMMON) $(OPT) -I$(B)/capi_src -I$(REPO)/interfaces -c $< -o $@

$(B)/libppl_c.a: $(B)/capi_src/objs.mk $(CAPI_OBJS)
	@rm -f $@
	ar rcs $@ $(CAPI_OBJS)

# thunks only for entry points that the compiled interface actually defines (declared-but-undefined ones are reported by the generator)
$(B)/capi_src/capi_thunks.inc: $(B)/libppl_c.a tools/gen_capi_thunks.py
	nm -g --defined-only $(B)/libppl_c.a | awk '$$2 == "T" {print $$3}' | sort -u > $(B)/capi_src/defined_symbols.txt
	python3 tools/gen_capi_thunks.py $(B)/capi_src/ppl_c_pp.h $(B)/capi_src/capi_thunks.inc $(B)/capi_src/defined_symbols.txt

$(B)/h/capi.o: sim/harness/capi.cc $(B)/capi_src/capi_thunks.inc
	@mkdir -p $(dir $@)
	$(CXX) $(COMMON) $(OPT) -fno-access-control -I sim -I$(B)/capi_src -I$(REPO)/interfaces -c $< -o $@

$(B)/bin/capi: $(B)/h/capi.o $(B)/libppl_c.a $(B)/libppl.a
	@mkdir -p $(dir $@)
	$(CXX) $(OPT) -o $@ $(B)/h/capi.o $(B)/libppl_c.a $(B)/libppl.a -lgmpxx -lgmp $(LDSAN)

# obj family: allocator shim inside; LSan (plain) or ASan+LSan at link time
$(B)/bin/obj_%: $(B)/h/obj_%.o $(B)/libppl.a
	@mkdir -p $(dir $@)
	$(CXX) $(OPT) -o $@ $< $(B)/libppl.a -lgmpxx -lgmp $(LDSAN)

clean:
	rm -rf _build

-include $(OBJS:.o=.d)
-include $(wildcard $(B)/h/*.d) $(wildcard $(B)/k/*.d) $(wildcard $(B)/capi_obj/*.d)
.SECONDARY:
.PHONY: all lib clean
